"""C01 — documented entity tree equals the declared program structure (structural clauses)."""
from __future__ import annotations

import ast
import re
import time
from typing import Dict, List, Optional, Set, Tuple

from ..core import AnalysisError, RuleSpec
from .. import astq
from ..pymodel import call_name
from ..specs import statements as S
from . import c09

EXPLANATION = (
    "Four necessary conditions of C01, decided from the source. R1 (case-neutral recognition): every "
    "regex on the parse path is compiled with IGNORECASE or contains no cased literal/range (regex ASTs "
    "via re._parser). R2 (lower-case discipline): source-derived text that is compared with a lower-case "
    "keyword constant has passed .lower() on the way (dataflow over local definitions; known lowered "
    "attributes listed with the site that lowers them). R3 (dispatch matrix, E2+E5): for reference "
    "regular languages of 25 statement heads (every prefix/kind/END spelling, unbounded identifiers, all "
    "blank and case spellings) and every container class in which the statement is legal: the language "
    "is included in the match language of the arm meant to handle it and disjoint from every earlier "
    "enabled arm of the extracted cascade - shortest witnesses are reported. R4 (container x construct "
    "matrix, E5+E1): for each concrete container class and each construct legal in that scoping unit the "
    "arm constructs an entity into a list that the class initialises and that FortranBase.children "
    "walks; attribute statements are applied before dummy arguments are matched; literal masking "
    "precedes case folding. parse_type/line_to_variables decomposition and argument matching are not "
    "decided."
    ' R5: in parse_type each slot of a character selector (len, kind) is filled at most once and the selector list is split at top-level commas only. R2 also requires every lookup key of the name-keyed attribute tables (attr_dict, param_dict) to be lower-cased, and treats the table content as lower-case only because every value recorded into it is verified to be lower-cased at the recording site.'
    " Added after waves 6/7 - every spelling of a two-word type keyword that the recogniser accepts is included in the language of a normaliser; templates compare entity names case-insensitively; initial values are not rewritten after their literals were put back."
)
ASSUMPTIONS = ["reference languages in sa/specs/statements.py transcribe F2008 statement syntax with expressions abstracted to parenthesis-free text",
               "extra_vartypes is empty when VARIABLE_RE is instantiated"]

# regexes that do not recognise Fortran text (HTML, markdown, doc handling): outside R1
NON_FORTRAN = {"sourceform.PARA_CAPTURE_RE", "sourceform.NBSP_RE", "sourceform.COMMA_RE",
               "sourceform.CALL_AND_WHITESPACE_RE"}


def r1_case_neutral(ctx, rep):
    py, rx = ctx.py, ctx.rx
    n = 0
    for name, (pat, flags, node, mod) in sorted(ctx.regexes.items()):
        if mod not in ("sourceform", "reader") or name in NON_FORTRAN:
            continue
        n += 1
        try:
            cased = rx.has_cased_literal(pat, flags)
        except rx.Unsupported as e:
            raise AnalysisError(f"{name}: {e}")
        ok = bool(flags & re.IGNORECASE) or cased is None
        rep.ob(f"regex {name}", ok,
               ("IGNORECASE" if flags & re.IGNORECASE else "no cased literal") if ok else
               f"{name} contains the cased literal {cased!r} and is compiled without re.IGNORECASE: recognition of "
               f"this construct depends on letter case", py.nloc(node), nontrivial=cased is not None)
    # dynamically compiled patterns
    init = py.func("FortranContainer.__init__")
    dyn = [c for c in py.walk_calls(init) if call_name(c) == "re.compile"]
    for c in dyn:
        fl = py.eval_flags(c.args[1] if len(c.args) > 1 else None)
        ok = fl is not None and bool(fl & re.IGNORECASE)
        rep.ob("regex FortranContainer.VARIABLE_RE (compiled per container)", ok, "IGNORECASE" if ok else
               "VARIABLE_RE is compiled without re.IGNORECASE", py.nloc(c))
        n += 1
    pt = py.func("sourceform.parse_type")
    for c in py.walk_calls(pt):
        if call_name(c) == "re.compile":
            fl = py.eval_flags(c.args[1] if len(c.args) > 1 else None)
            ok = fl is not None and bool(fl & re.IGNORECASE)
            rep.ob("regex parse_type.var_type_re", ok, "IGNORECASE" if ok else "compiled without IGNORECASE", py.nloc(c))
            n += 1
    for q in ("FortranCodeUnit._find_chain_item", "sourceform._list_of_procedure_attributes"):
        fn = py.func(q)
        for c in py.walk_calls(fn):
            if call_name(c) in ("re.match", "re.sub", "re.search") and len(c.args) >= 2:
                fl = None
                for k in c.keywords:
                    if k.arg == "flags":
                        fl = py.eval_flags(k.value)
                if fl is None and len(c.args) > (3 if call_name(c) == "re.sub" else 2):
                    fl = py.eval_flags(c.args[-1])
                pat = py.eval_str(c.args[0])
                cased = rx.has_cased_literal(pat, fl or 0) if pat is not None else "?"
                ok = bool((fl or 0) & re.IGNORECASE) or cased is None or pat is None and bool((fl or 0) & re.IGNORECASE)
                rep.ob(f"inline regex in {q}: {ast.unparse(c.args[0])[:40]}", ok, "", py.nloc(c), nontrivial=False)
                n += 1
    if n < 45:
        raise AnalysisError(f"only {n} parse-path regexes found")


KEYWORDS = {"contains", "public", "private", "protected", "sequence", "data", "dimension", "allocatable", "pointer",
            "parameter", "bind", "intent", "optional", "external", "type", "class", "procedure", "character",
            "generic", "deferred", "block", "associate", "function", "subroutine", "interface", "module", "submodule",
            "in", "out", "inout", "intent(in)", "intent(out)", "intent(inout)", "integer", "real", "double precision",
            "double complex", "abstract", "extends", "pure", "elemental", "recursive", "impure", "non_recursive"}
# attributes that hold already lower-cased text, with the site that lowers them
LOWERED_ATTRS = {
    "vartype": "FortranVariable.__init__: self.vartype = vartype.lower()",
    "permission": "FortranBase.__init__ lowers inherited_permission; declaration attributes are compared lower-case",
    "obj": "derived from the class name",
    "parobj": "parent.obj",
    "proctype": "class constant (compared through .lower())",
    "intent": "set from literal constants in line_to_variables",
    "sort": "compared through .lower()",
}


NAME_KEYED = ("attr_dict", "param_dict")


def _local_list_lowered(py, f2, name: str, depth: int) -> bool:
    """every element put into the local list `name` of f2 is lower-case (see _returned_list_lowered)"""
    ret = ast.Return(value=ast.Name(id=name, ctx=ast.Load()))
    fake = ast.FunctionDef(name=f2.name, args=f2.args, body=list(f2.body) + [ret], decorator_list=[], returns=None, type_comment=None,
                           lineno=f2.lineno, col_offset=0)
    # only the added return counts: hide the function's own returns
    class _R(ast.NodeTransformer):
        def visit_Return(self, n):
            return n if n is ret else ast.copy_location(ast.Pass(), n)
        def visit_FunctionDef(self, n):
            return n if n is not fake else self.generic_visit(n)
    import copy as _copy
    fake2 = _copy.copy(fake)
    fake2.body = [x for x in fake.body]
    rets_backup = None
    return _returned_list_lowered(py, fake2, 0, depth, only=ret, mod=py.module_of(f2))


def _returned_list_lowered(py, f2, index: int, depth: int, only=None, mod=None) -> bool:
    """every element that f2 puts into the list it returns (as element `index` of the returned tuple) is lower-case:
    a constant, the variable of a loop over constants, or text that has passed .lower()"""
    names = set()
    for v in ([only.value] if only is not None else astq.returns(f2)):
        if isinstance(v, ast.Tuple) and len(v.elts) > index:
            v = v.elts[index]
        if isinstance(v, ast.Name):
            names.add(v.id)
        elif isinstance(v, (ast.List, ast.Tuple)):
            if not all(_lowered(py, f2, x, depth + 1) for x in v.elts):
                return False
        else:
            return False
    if not names:
        return True
    ok = True
    for n in ast.walk(f2):
        if isinstance(n, ast.Call) and isinstance(n.func, ast.Attribute) and isinstance(n.func.value, ast.Name) and \
                n.func.value.id in names and n.func.attr in ("append", "insert", "extend") and n.args:
            x = n.args[-1]
            if isinstance(x, ast.Name):
                # the variable of a loop over literal constants is as lower-case as the constants
                its = [st.iter for st in ast.walk(f2) if isinstance(st, (ast.For, ast.comprehension)) and
                       isinstance(st.target, ast.Name) and st.target.id == x.id]
                def lower_consts(i) -> bool:
                    # a literal sequence, or a module-level constant that evaluates to one (PREFIXES = ("pure", ...))
                    try:
                        v = py.eval_const(i, py.module_env(mod or py.module_of(f2)))
                    except Exception:
                        v = py._UNKNOWN
                    return isinstance(v, (list, tuple, set, frozenset)) and bool(v) and all(isinstance(c, str) and c == c.lower() for c in v)
                if its and all(lower_consts(i) for i in its):
                    continue
            ok = ok and _lowered(py, f2, x, depth + 1)
        elif isinstance(n, ast.Assign) and any(isinstance(t, ast.Name) and t.id in names for t in n.targets):
            if isinstance(n.value, (ast.List, ast.Tuple)):
                ok = ok and all(_lowered(py, f2, x, depth + 1) for x in n.value.elts)
            elif isinstance(n.value, ast.ListComp):
                ok = ok and _lowered(py, f2, n.value.elt, depth + 1)
            else:
                ok = False
    return ok


def _param_lowered(py, fn, name: str, depth: int):
    """A parameter that is never rebound is as lower-case as the arguments of every call site (None: not a parameter, or no
    call site can be resolved)."""
    if not isinstance(fn, (ast.FunctionDef, ast.AsyncFunctionDef)):
        return None
    a = fn.args
    pos = [x.arg for x in a.posonlyargs + a.args]
    if name not in pos + [x.arg for x in a.kwonlyargs]:
        return None
    q = py.qualname(fn)
    callee = q.split(".")[-2] if q.endswith(".__init__") and "." in q else fn.name
    method = "." in q and not q.endswith(".__init__")
    plain = pos[1:] if ("." in q and pos and pos[0] in ("self", "cls")) else pos
    defaults = dict(zip(reversed(pos), reversed(a.defaults)))
    defaults.update({k.arg: d for k, d in zip(a.kwonlyargs, a.kw_defaults) if d is not None})
    sites = []
    for _m, f2 in py.all_ifunctions():
        for c in ast.walk(f2):
            if not isinstance(c, ast.Call):
                continue
            cn = call_name(c)
            if not (cn == callee or (method and cn.endswith("." + callee)) or (not method and cn.endswith("." + callee)
                                                                               and cn.split(".")[0] in ("ford", "sourceform"))):
                continue
            if any(isinstance(x, ast.Starred) for x in c.args) or any(k.arg is None for k in c.keywords):
                return None
            arg = None
            if name in plain and plain.index(name) < len(c.args):
                arg = c.args[plain.index(name)]
            else:
                arg = next((k.value for k in c.keywords if k.arg == name), defaults.get(name))
            if arg is None:
                return None
            sites.append((f2, arg))
    if not sites:
        return None
    return all(_lowered(py, f2, arg, depth + 1) for f2, arg in sites)


def _lowered(py, fn, e: ast.AST, depth=0) -> bool:
    if depth > 6:
        return False
    t = ast.unparse(e)
    if ".lower()" in t:
        return True
    if isinstance(e, ast.Constant):
        return True
    if isinstance(e, ast.Attribute) and e.attr in LOWERED_ATTRS:
        return True
    if isinstance(e, ast.Attribute) and ast.unparse(e) == "self.attribs":
        # attribs built from canonical lower-case keywords: assigned (possibly as one element of a tuple assignment) from a
        # helper that returns such a list, or - in the canonical form, where the helper is inlined - from a local list
        verdicts = []
        for n in ast.walk(fn):
            if not isinstance(n, ast.Assign):
                continue
            for t in n.targets:
                pairs = [(t, n.value, None)]
                if isinstance(t, ast.Tuple):
                    if isinstance(n.value, ast.Tuple) and len(n.value.elts) == len(t.elts):
                        pairs = [(tt, vv, None) for tt, vv in zip(t.elts, n.value.elts)]
                    else:
                        pairs = [(tt, n.value, i) for i, tt in enumerate(t.elts)]
                for tt, vv, idx in pairs:
                    if ast.unparse(tt) != "self.attribs":
                        continue
                    if isinstance(vv, ast.Call) and py.has_func(f"sourceform.{call_name(vv)}"):
                        verdicts.append(_returned_list_lowered(py, py.func(f"sourceform.{call_name(vv)}"), idx or 0, depth))
                    elif isinstance(vv, ast.Name):
                        verdicts.append(_local_list_lowered(py, fn, vv.id, depth))
                    elif isinstance(vv, (ast.List, ast.Tuple)):
                        verdicts.append(all(_lowered(py, fn, x, depth + 1) for x in vv.elts))
                    else:
                        verdicts.append(False)
        if verdicts:
            return all(verdicts)
    if isinstance(e, ast.Attribute) and e.attr == "attr_dict":
        # the attribute table holds lower-case text iff every value recorded into it is lower-cased where it is recorded
        key = "_attr_dict_lowered"
        if key not in py.__dict__:
            py.__dict__[key] = True      # guards the recursion
            res = True
            sites = 0
            for _, f2 in py.all_functions():
                for c in ast.walk(f2):
                    if isinstance(c, ast.Call) and isinstance(c.func, ast.Attribute) and c.func.attr in ("append", "extend") and \
                            isinstance(c.func.value, ast.Subscript) and ast.unparse(c.func.value.value).endswith("attr_dict") and c.args:
                        sites += 1
                        v = c.args[0]
                        parts = [v.left, v.right] if isinstance(v, ast.BinOp) and isinstance(v.op, ast.Add) else [v]
                        res = res and all(_lowered(py, py.enclosing_function(c), x, 0) for x in parts)
            py.__dict__[key] = res and sites > 0
        return py.__dict__[key]
    if isinstance(e, ast.Subscript):
        return _lowered(py, fn, e.value, depth + 1)
    if isinstance(e, ast.Call) and isinstance(e.func, ast.Attribute) and e.func.attr in ("items", "values", "pop", "copy"):
        return _lowered(py, fn, e.func.value, depth + 1)
    if isinstance(e, ast.Call) and isinstance(e.func, ast.Attribute) and e.func.attr in (
            "strip", "replace", "split", "rstrip", "lstrip", "group", "get"):
        return _lowered(py, fn, e.func.value, depth + 1)
    if isinstance(e, ast.Call) and call_name(e) in ("getattr",) and len(e.args) >= 2 and \
            isinstance(e.args[1], ast.Constant) and e.args[1].value in LOWERED_ATTRS:
        return True
    if isinstance(e, ast.Name):
        defs = []
        for n in ast.walk(fn):
            if isinstance(n, ast.Assign) and any(isinstance(x, ast.Name) and x.id == e.id for x in n.targets):
                defs.append(n.value)
            elif isinstance(n, ast.NamedExpr) and n.target.id == e.id:
                defs.append(n.value)
            elif isinstance(n, (ast.For, ast.comprehension)) and isinstance(n.target, ast.Name) and n.target.id == e.id:
                defs.append(n.iter)
            elif isinstance(n, (ast.For, ast.comprehension)) and isinstance(n.target, ast.Tuple) and any(
                    isinstance(x, ast.Name) and x.id == e.id for x in n.target.elts):
                defs.append(n.iter)      # `for k, v in d.items()`: as lowered as d is
        if e.id == "line_lower":
            return True
        key = (id(fn), e.id)
        if key in _VISITING:
            return True          # a cycle of copies (`text = attr ... attr = text`): as lower-case as its other sources
        if not defs:
            v = _param_lowered(py, fn, e.id, depth)
            if v is not None:
                return v
            # a module-level table: as lower-case as the string constants it holds
            modname = py.module_of(fn) if not isinstance(fn, ast.Module) else None
            tree = py.modules.get(modname) if modname else None
            if tree is not None:
                for st in tree.body:
                    tg = st.targets[0] if isinstance(st, ast.Assign) and len(st.targets) == 1 else (st.target if isinstance(st, ast.AnnAssign) else None)
                    if isinstance(tg, ast.Name) and tg.id == e.id and getattr(st, "value", None) is not None and \
                            isinstance(st.value, (ast.Tuple, ast.List, ast.Dict, ast.Set)):
                        strs = [c.value for c in ast.walk(st.value) if isinstance(c, ast.Constant) and isinstance(c.value, str)]
                        return bool(strs) and all(x == x.lower() for x in strs)
        def empty_container(d) -> bool:
            return (isinstance(d, (ast.List, ast.Set, ast.Tuple)) and not d.elts) or (isinstance(d, ast.Dict) and not d.keys) or \
                (isinstance(d, ast.Call) and call_name(d) in ("set", "list") and not d.args)
        if defs and all(empty_container(d) for d in defs):
            # a local collection: as lower-case as everything that is put into it
            added = [c.args[-1] for c in ast.walk(fn) if isinstance(c, ast.Call) and isinstance(c.func, ast.Attribute)
                     and isinstance(c.func.value, ast.Name) and c.func.value.id == e.id
                     and c.func.attr in ("add", "append", "insert", "extend", "update") and c.args]
            added += [st.value for st in ast.walk(fn) if isinstance(st, ast.AugAssign) and isinstance(st.target, ast.Name)
                      and st.target.id == e.id]
            return bool(added) and all(_lowered(py, fn, a, depth + 1) for a in added)
        if defs:
            def mentions_self(d):
                return any(isinstance(x, ast.Name) and x.id == e.id for x in ast.walk(d))
            # `x = x.strip().lower()` : the name is lower-cased in place before it is compared
            if any(mentions_self(d) and ".lower()" in ast.unparse(d) for d in defs):
                return True
            base = [d for d in defs if not mentions_self(d)]
            _VISITING.add(key)
            try:
                return bool(base) and all(_lowered(py, fn, d, depth + 1) for d in base)
            finally:
                _VISITING.discard(key)
    if isinstance(e, ast.BinOp) and isinstance(e.op, ast.Add):
        return _lowered(py, fn, e.left, depth + 1) and _lowered(py, fn, e.right, depth + 1)
    if isinstance(e, ast.IfExp):
        return _lowered(py, fn, e.body, depth + 1) and _lowered(py, fn, e.orelse, depth + 1)
    if isinstance(e, ast.BoolOp):        # `a or "public"`: one of its operands
        return all(_lowered(py, fn, v, depth + 1) for v in e.values)
    if isinstance(e, (ast.Tuple, ast.List, ast.Set)) and e.elts:
        # a literal table (possibly of rows): as lower-case as its string constants; non-string members (compiled patterns,
        # numbers) do not take part in keyword comparisons
        strs = [c.value for c in ast.walk(e) if isinstance(c, ast.Constant) and isinstance(c.value, str)]
        others = [x for x in ast.walk(e) if isinstance(x, (ast.Call, ast.Subscript, ast.Attribute))]
        if strs and not others:
            return all(x == x.lower() for x in strs)
    if isinstance(e, ast.Call) and isinstance(e.func, ast.Attribute) and e.func.attr == "sub" and len(e.args) >= 2:
        # `REGEX.sub(replacement, text)`: outside the replaced pieces the result is `text`
        return _lowered(py, fn, e.args[1], depth + 1)
    return False


_VISITING: set = set()


def r2_lower_discipline(ctx, rep):
    py = ctx.py
    n = 0
    # on the canonical (helper-inlined) program: a comparison inside a helper is judged with the arguments of its call sites
    for mod, fn in py.all_ifunctions():
        if mod != "sourceform":
            continue
        q = py.qualname(fn)
        if any(x in q for x in ("GenericSource", "sort_components", "NameSelector", "External", "lines_description",
                                "markdown", "get_dir", "get_url")):
            continue
        for c in ast.walk(fn):
            if not (isinstance(c, ast.Compare) and len(c.ops) == 1 and isinstance(c.ops[0], (ast.Eq, ast.NotEq, ast.In, ast.NotIn))):
                continue
            if py.enclosing_function(c) is not fn:
                continue
            left, right = c.left, c.comparators[0]
            const_side, other = None, None
            for a, b in ((left, right), (right, left)):
                vals = None
                if isinstance(a, ast.Constant) and isinstance(a.value, str):
                    vals = [a.value]
                elif isinstance(a, (ast.List, ast.Tuple)) and a.elts and all(isinstance(x, ast.Constant) and isinstance(x.value, str) for x in a.elts):
                    vals = [x.value for x in a.elts]
                if vals and any(v in KEYWORDS for v in vals):
                    const_side, other = vals, b
            if const_side is None:
                continue
            # `"x" in attribs`: the constant is the needle, the list holds source text
            n += 1
            ok = _lowered(py, fn, other)
            rep.ob(f"{q}: `{ast.unparse(c)[:60]}`", ok,
                   "compared text is lower-cased" if ok else
                   f"`{ast.unparse(other)[:40]}` holds text as written in the source and is compared with the lower-case "
                   f"constant(s) {const_side[:3]}: the same declaration written in upper case is treated differently",
                   py.nloc(c))
    if n < 25:
        raise AnalysisError(f"only {n} keyword comparisons found")
    # letters: a character of a name tested against lower-case letters (`name[0] in "ijklmn"`, `"i" <= name[0] <= "n"` - the
    # implicit typing rule) has to be lower-cased first; upper-case names are the rule in older code
    k = 0
    for mod, fn in py.all_ifunctions():
        if mod != "sourceform":
            continue
        for c in ast.walk(fn):
            if not isinstance(c, ast.Compare) or py.enclosing_function(c) is not fn:
                continue
            operands = [c.left] + list(c.comparators)
            letters = [o for o in operands if isinstance(o, ast.Constant) and isinstance(o.value, str) and o.value.isalpha()
                       and o.value.islower() and (len(o.value) == 1 or all(isinstance(op, (ast.In, ast.NotIn)) for op in c.ops))
                       and o.value not in KEYWORDS]
            chars = [o for o in operands if isinstance(o, ast.Subscript) and not isinstance(o.slice, ast.Slice)
                     or (isinstance(o, ast.Call) and isinstance(o.func, ast.Attribute) and o.func.attr == "lower"
                         and isinstance(o.func.value, ast.Subscript))]
            if not letters or not chars:
                continue
            if len(letters[0].value) > 1 and not all(len(set(x.value)) == len(x.value) for x in letters):
                continue
            k += 1
            ok = all(_lowered(py, fn, o) for o in chars)
            rep.ob(f"{py.qualname(fn)}: `{ast.unparse(c)[:60]}`", ok,
                   "the character is lower-cased before it is compared with lower-case letters" if ok else
                   f"`{ast.unparse(chars[0])}` is a character of a name as written in the source and is compared with lower-case letters: "
                   f"an upper-case spelling (`KOUNT`, `IFACT`) falls on the other side - implicitly typed names get the wrong type",
                   py.nloc(c))
    rep.stats["letter_comparisons"] = k
    # name-keyed tables filled with lower-cased names: every lookup key is lower-cased too
    m = 0
    for mod, fn in py.all_ifunctions():
        if mod != "sourceform":
            continue
        for c in ast.walk(fn):
            key = None
            if isinstance(c, ast.Subscript) and isinstance(c.value, ast.Attribute) and c.value.attr in NAME_KEYED and \
                    not isinstance(c.slice, ast.Slice):
                key, tbl = c.slice, c.value.attr
            elif isinstance(c, ast.Call) and isinstance(c.func, ast.Attribute) and c.func.attr in ("get", "pop", "setdefault") and \
                    isinstance(c.func.value, ast.Attribute) and c.func.value.attr in NAME_KEYED and c.args:
                key, tbl = c.args[0], c.func.value.attr
            if key is None or py.enclosing_function(c) is not fn:
                continue
            m += 1
            ok = _lowered(py, fn, key)
            rep.ob(f"{py.qualname(fn)}: key of {tbl}[{ast.unparse(key)[:40]}]", ok,
                   "the table is keyed by lower-cased names and the key is lower-cased" if ok else
                   f"`{ast.unparse(key)}` keeps the spelling of the source while {tbl} is filled with lower-cased names: an "
                   f"attribute/access statement that spells the entity differently from its declaration is not applied",
                   py.nloc(c), nontrivial=False)
    if m < 6:
        raise AnalysisError(f"only {m} lookups in the name-keyed attribute tables found")


FULL_MATCH_ARMS = {"NAMELIST_RE"}


def arm_language(ctx, arm, regex_name: str, method: str, cls: str):
    rx, py = ctx.rx, ctx.py
    if regex_name == "VARIABLE_RE":
        vs = py.str_constant("FortranContainer", "VARIABLE_STRING")
        if vs is None:
            raise AnalysisError("VARIABLE_STRING not found")
        pat, flags = vs.format(""), re.IGNORECASE
    else:
        key = f"FortranContainer.{regex_name}"
        if key not in ctx.regexes:
            raise AnalysisError(f"{key} not found")
        pat, flags = ctx.regexes[key][0], ctx.regexes[key][1]
    if regex_name in FULL_MATCH_ARMS:
        L = rx.full(pat, flags)
    elif method == "search":
        L = rx.search_lang(pat, flags)
    else:
        L = rx.match_lang(pat, flags)
    if regex_name == "MODPROC_RE" and not py.is_subclass(cls, "FortranInterface"):
        # guard: match["module"] or isinstance(self, FortranInterface)
        L = rx.conj(L, rx.match_lang(r"module\s", re.IGNORECASE))
    return L


def r3_dispatch_matrix(ctx, rep):
    py, rx, cs = ctx.py, ctx.rx, ctx.cascade
    t0 = time.time()
    total_states = 0
    for kind, (ref, target, classes, state) in S.KINDS.items():
        try:
            SK = rx.full(ref, re.IGNORECASE)
        except rx.Unsupported as e:
            raise AnalysisError(f"reference language {kind}: {e}")
        if rx.is_empty(SK):
            raise AnalysisError(f"reference language for {kind} is empty")
        tarm = cs.arm_by_regex(target)
        seen_sig = set()
        for cls in classes:
            py.cls(cls)
            is_intf = py.is_subclass(cls, "FortranInterface")
            sig = (is_intf,)
            if sig in seen_sig:
                continue
            seen_sig.add(sig)
            method = [m for r, m in tarm.regexes if r == target][0]
            LT = arm_language(ctx, tarm, target, method, cls)
            w = rx.subset_witness(SK, LT)
            total_states += rx.witness.last_states
            rep.ob(f"{kind} -> {target} [{('interface' if is_intf else 'unit')}]", w is None,
                   f"every spelling is taken by the {target} arm" if w is None else
                   f"`{w}` is a legal {kind} statement that {target} does not "
                   f"{'fully ' if target in FULL_MATCH_ARMS else ''}match: the entity is absent for this spelling",
                   py.nloc(tarm.test), witness=w)
            for arm in cs.arms[:tarm.index]:
                # residual state conditions
                if "incontains" in " ".join(arm.residual) and state == "spec":
                    continue
                for lit in arm.literals:
                    w = rx.disjoint_witness(SK, rx.lit(lit, True))
                    if w is not None:
                        rep.ob(f"{kind} not stolen by literal arm {lit!r}", False, f"`{w}` equals the literal", py.nloc(arm.test), witness=w)
                for rname, meth in arm.regexes:
                    LA = arm_language(ctx, arm, rname, meth, cls)
                    w = rx.disjoint_witness(SK, LA)
                    total_states += rx.witness.last_states
                    rep.ob(f"{kind} not stolen by earlier arm {rname} [{('interface' if is_intf else 'unit')}]", w is None,
                           "disjoint" if w is None else
                           f"`{w}` is a legal {kind} statement but the earlier arm {rname} matches it first: it is "
                           f"dispatched to the wrong handler", py.nloc(arm.test), witness=w)
    rep.stats["dispatch_matrix_states"] = total_states
    rep.stats["dispatch_matrix_seconds"] = round(time.time() - t0, 2)


# construct -> (arm regex, list, container classes in which it must be constructible, needs CONTAINS)
LEGAL = {
    "module": ("MODULE_RE", "modules", ["FortranSourceFile"]),
    "submodule": ("SUBMODULE_RE", "submodules", ["FortranSourceFile"]),
    "program": ("PROGRAM_RE", "programs", ["FortranSourceFile"]),
    "block data": ("BLOCK_DATA_RE", "blockdata", ["FortranSourceFile"]),
    "subroutine": ("SUBROUTINE_RE", "subroutines", ["FortranSourceFile", "FortranModule", "FortranSubmodule", "FortranProgram",
                                                    "FortranSubroutine", "FortranFunction", "FortranInterface",
                                                    "FortranModuleProcedureImplementation"]),
    "function": ("FUNCTION_RE", "functions", ["FortranSourceFile", "FortranModule", "FortranSubmodule", "FortranProgram",
                                                "FortranSubroutine", "FortranFunction", "FortranInterface",
                                                "FortranModuleProcedureImplementation"]),
    "module procedure implementation": ("MODPROC_RE", "modprocedures", ["FortranModule", "FortranSubmodule"]),
    "module procedure reference": ("MODPROC_RE", "modprocs", ["FortranInterface"]),
    "derived type": ("TYPE_RE", "types", S.CODE_UNITS + ["FortranBlockData"]),
    "interface": ("INTERFACE_RE", "interfaces", S.CODE_UNITS),
    "enum": ("ENUM_RE", "enums", S.CODE_UNITS),
    "variable": ("VARIABLE_RE", "variables", S.CODE_UNITS + ["FortranType", "FortranEnum", "FortranBlockData"]),
    "type-bound procedure": ("BOUNDPROC_RE", "boundprocs", ["FortranType"]),
    "final": ("FINAL_RE", "finalprocs", ["FortranType"]),
    "common": ("COMMON_RE", "common", S.CODE_UNITS + ["FortranBlockData"]),
    "namelist": ("NAMELIST_RE", "namelists", S.CODE_UNITS),
    "use": ("USE_RE", "uses", S.CODE_UNITS + ["FortranBlockData"]),
}


def attribute_statements_order(py):
    """(FortranProcedure._cleanup, index of the top-level statement that runs the inherited clean-up - which applies the
    attribute statements -, index of the first top-level statement that takes dummy arguments out of self.variables)"""
    fp = py.func("FortranProcedure._cleanup")
    def top_index(pred):
        return next((i for i, st in enumerate(fp.body) if any(pred(n) for n in ast.walk(st))), None)
    i_super = top_index(lambda n: isinstance(n, ast.Call) and call_name(n) == "super()._cleanup")
    i_take = top_index(lambda n: (isinstance(n, ast.Call) and isinstance(n.func, ast.Attribute) and n.func.attr in ("remove", "pop")
                                  and ast.unparse(n.func.value) == "self.variables")
                       or (isinstance(n, ast.Assign) and any(ast.unparse(t) == "self.variables" for t in n.targets)))
    if i_super is None or i_take is None:
        raise AnalysisError("FortranProcedure._cleanup: inherited clean-up or argument matching not found")
    return fp, i_super, i_take


def r4_container_matrix(ctx, rep):
    py, cs = ctx.py, ctx.cascade
    from ..tables import children_lists
    lists, singles = children_lists(py)
    for construct, (rname, dest, classes) in LEGAL.items():
        arm = cs.arm_by_regex(rname)
        dests = set()
        for c in arm.constructs:
            if c.dest:
                dests |= set(c.dest.split("|"))
        body = ast.unparse(ast.Module(body=arm.body, type_ignores=[]))
        if dest == "uses":
            dests.add("uses") if "self.uses.append" in body else None
        ok_arm = dest in dests
        for cls in classes:
            has = py.hasattr_set(cls)
            guard = f"hasattr(self, '{dest}')"
            guarded = guard in body or f"not hasattr(self, '{dest}')" in body
            if not guarded:
                # isinstance-guarded construction (MODULE PROCEDURE arm)
                for c in arm.constructs:
                    if c.dest and dest in c.dest.split("|"):
                        ks = re.findall(r"isinstance\(self, (\w+)\)", " ".join(x for x in c.conds if not x.startswith("not (")))
                        neg = re.findall(r"isinstance\(self, (\w+)\)", " ".join(x for x in c.conds if x.startswith("not (")))
                        if ks and all(py.is_subclass(cls, k) for k in ks) and not any(py.is_subclass(cls, k) for k in neg):
                            guarded = True
            ok = ok_arm and dest in has and guarded
            rep.ob(f"{cls} x {construct}", ok,
                   (f"arm {rname} constructs into self.{dest}, which {cls} initialises" if ok else
                    (f"arm {rname} does not construct into self.{dest}" if not ok_arm else
                     (f"{cls} does not initialise `{dest}` before the dispatch loop: a {construct} inside it is rejected "
                      f"as unexpected" if dest not in has else f"arm does not test {guard}"))),
                   py.nloc(arm.test))
        if dest not in ("uses", "modprocs"):   # modprocs: reachable through the `modproc` link kind only
            ok = dest in lists
            rep.ob(f"list `{dest}` is walked by FortranBase.children", ok,
                   "entities of this list are found by find_child / [[links]]" if ok else
                   f"`{dest}` is not among the collections FortranBase.children iterates", py.nloc(py.func("FortranBase.children")),
                   nontrivial=False)
    # containers that must NOT accept a construct report it (sample: units inside units)
    for rname, cls in (("MODULE_RE", "FortranModule"), ("PROGRAM_RE", "FortranProgram"), ("SUBMODULE_RE", "FortranModule")):
        arm = cs.arm_by_regex(rname)
        dest = [c.dest for c in arm.constructs][0]
        ok = dest not in py.hasattr_set(cls) and len(arm.errors) >= 1
        rep.ob(f"{cls} rejects nested {rname[:-3].lower()}", ok, "", py.nloc(arm.test), nontrivial=False)
    # procedures need CONTAINS in a code unit: the flag is the loop-carried name that the CONTAINS arm sets to True
    flag = None
    for st in ast.walk(ast.Module(body=cs.arm_by_literal("contains").body, type_ignores=[])):
        if isinstance(st, ast.Assign) and isinstance(st.targets[0], ast.Name) and isinstance(st.value, ast.Constant) and st.value.value is True:
            flag = st.targets[0].id
    if flag is None:
        raise AnalysisError("the CONTAINS arm sets no flag")
    for rname in ("SUBROUTINE_RE", "FUNCTION_RE"):
        arm = cs.arm_by_regex(rname)
        ok = any(re.search(rf"\bnot \(?{flag}\b", c) for _msg, conds in arm.errors for c in conds)
        rep.ob(f"{rname[:-3].lower()} before CONTAINS in a code unit is an error", ok,
               f"the arm raises while `{flag}` is false", py.nloc(arm.test))
    # interfaces are flattened into generic / abstract / explicit lists.  Decided per truth assignment of (abstract, generic)
    # on the canonical (helper-inlined) arm: which list receives what
    arm = cs.arm_by_regex("INTERFACE_RE")
    evs = [e for e in astq.trace_block(arm.body, cs.fn) if e.kind == "call" and isinstance(e.node.func, ast.Attribute)
           and e.node.func.attr in ("append", "extend") and e.node.args]
    def atom(x):
        if isinstance(x, ast.Attribute) and x.attr in ("abstract", "generic"):
            return (x.attr, True)
        return None
    def receivers(e, env):
        r = e.node.func.value
        if isinstance(r, ast.Attribute) and isinstance(r.value, ast.Name) and r.value.id == "self":
            return [r.attr]
        if isinstance(r, ast.Name):
            out = []
            for _t, v in astq.assignments(cs.fn, r.id):
                alts = [v]
                if isinstance(v, ast.IfExp):
                    c = astq.eval_cond(v.test, atom, env)
                    alts = [v.body] if c is True else ([v.orelse] if c is False else [v.body, v.orelse])
                out += [x.attr for x in alts if isinstance(x, ast.Attribute) and isinstance(x.value, ast.Name) and x.value.id == "self"]
            return out
        return []
    want = {(True, True): {("absinterfaces", "extend", True)}, (True, False): {("absinterfaces", "extend", True)},
            (False, True): {("interfaces", "append", False)}, (False, False): {("interfaces", "extend", True)}}
    wrong = []
    for (ab, ge), expected in want.items():
        env = {"abstract": ab, "generic": ge}
        got = set()
        for e in evs:
            if astq.event_fires(e, atom, env) is False:
                continue
            for lst in receivers(e, env):
                if lst in ("interfaces", "absinterfaces"):
                    got.add((lst, e.node.func.attr, any(isinstance(x, ast.Attribute) and x.attr == "contents" for x in ast.walk(e.node.args[0]))))
        if got != expected:
            wrong.append(f"abstract={ab}, generic={ge}: {sorted(got)}")
    rep.ob("interface blocks are flattened into abstract / generic / explicit lists", not wrong,
           "abstract -> absinterfaces.extend(contents); generic -> interfaces.append(block); explicit -> interfaces.extend(contents)"
           if not wrong else f"for {wrong[0]} (list, operation, takes .contents)", py.nloc(arm.test))
    # attribute statements before argument matching (also C04.R3): the inherited clean-up (which applies the attribute
    # statements) runs before the first statement that takes dummy arguments out of self.variables
    fp, i_super, i_take = attribute_statements_order(py)
    ok = i_super < i_take
    rep.ob("attribute statements are applied before dummy arguments are matched", ok,
           "process_attribs runs while the dummy arguments are still in self.variables" if ok else
           "FortranProcedure._cleanup matches (and removes) dummy arguments before super()._cleanup() applies attribute "
           "statements: `intent(in) :: n` / `dimension x(n)` written as separate statements are dropped for arguments",
           py.nloc(fp))
    # masking before case folding (shared with C02.R4)
    from . import c02
    c02.r4_masking(ctx, rep)


def r5_character_slots(ctx, rep):
    """character(len, kind): each of the two parameter slots is filled at most once while the selector
    list is scanned (named parameters in any order, positional ones first len then kind)."""
    py = ctx.py
    fn = py.func("sourceform.parse_type")
    loops = [n for n in ast.walk(fn) if isinstance(n, ast.For) and ast.unparse(n.iter) == "args"]
    if not loops:
        raise AnalysisError("parse_type: loop over the character selector not found")
    n = 0
    # every store into one of the two slots inside the scan happens on a path on which that slot is still empty - decided on the
    # path conditions, so `if length is None and m:`, nested ifs, elif chains and else branches are treated alike
    for e in astq.trace_block(loops[0].body, fn):
        if e.kind != "assign" or e.target not in ("length", "kind") or e.value is None:
            continue
        slot = e.target
        # skip re-normalisation of an already chosen value (kind = restore(kind))
        if re.search(r"\b%s\b" % slot, ast.unparse(e.value)) and "group" not in ast.unparse(e.value):
            continue
        n += 1

        def atom(t, slot=slot):
            if isinstance(t, ast.Compare) and len(t.ops) == 1 and ast.unparse(t.left) == slot and \
                    isinstance(t.comparators[0], ast.Constant) and t.comparators[0].value is None:
                return ("empty", isinstance(t.ops[0], ast.Is))
            if isinstance(t, ast.Name) and t.id == slot:
                return ("empty", False)
            return None
        guarded = astq.path_implies(e, atom, {"empty": True}) is True
        rep.ob(f"parse_type: `{ast.unparse(e.node)[:50]}` fills an empty slot", guarded,
               f"only reached while `{slot} is None`" if guarded else
               f"`{ast.unparse(e.node)[:60]}` can overwrite a {slot} that was already set: in `character(10, 4)` the "
               f"positional kind 4 matches the length pattern and replaces the length", py.nloc(e.node))
    if n < 3:
        raise AnalysisError(f"parse_type: only {n} slot assignments found")
    ok = any(isinstance(i, ast.If) and isinstance(i.test, ast.Compare) and isinstance(i.test.ops[0], ast.Is)
             and ast.unparse(i.test.left) == "length" and any(
                 isinstance(a, ast.Assign) and ast.unparse(a.targets[0]) == "length" and isinstance(a.value, ast.Constant)
                 and str(a.value.value) == "1" for a in i.body) for i in ast.walk(fn))
    if not ok:
        # the same default written as an expression: `"1" if length is None else length`, `length or "1"`
        for x in ast.walk(fn):
            if isinstance(x, ast.IfExp) and "length" in ast.unparse(x.test) and "None" in ast.unparse(x.test) and any(
                    isinstance(b, ast.Constant) and str(b.value) == "1" for b in (x.body, x.orelse)):
                ok = True
            if isinstance(x, ast.BoolOp) and isinstance(x.op, ast.Or) and ast.unparse(x.values[0]) == "length" and \
                    isinstance(x.values[-1], ast.Constant) and str(x.values[-1].value) == "1":
                ok = True
    rep.ob("parse_type: default character length is 1", ok, "a missing length is filled with 1", py.nloc(fn), nontrivial=False)



ORDER_BEARING = {"args": "the dummy-argument list is the procedure's signature", "bindings": "the specific bindings of a generic are in declaration order"}


def r6_order_bearing_collections(ctx, rep):
    """the `sort` option reorders *sets* of entities; collections whose order carries meaning (the argument list)
    must never be handed to it"""
    py = ctx.py
    fn = py.func("FortranBase.sort_components")
    names: Set[str] = set()
    env = py.module_env("sourceform")
    for n in ast.walk(fn):
        if isinstance(n, (ast.For, ast.comprehension)):
            v = py.eval_const(n.iter, env)
            if isinstance(v, (list, tuple)) and v and all(isinstance(x, str) for x in v):
                names |= set(v)
    for c in py.walk_calls(fn):
        if isinstance(c.func, ast.Attribute) and c.func.attr == "sort" and ast.unparse(c.func.value).startswith("self."):
            names.add(ast.unparse(c.func.value)[5:])
        if call_name(c) == "getattr" and len(c.args) >= 2 and isinstance(c.args[1], ast.Constant):
            names.add(c.args[1].value)
    if len(names) < 5:
        raise AnalysisError("sort_components: the list of sorted collections was not found")
    for k, why in ORDER_BEARING.items():
        rep.ob(f"sort_components leaves `{k}` in declaration order", k not in names,
               why if k not in names else
               f"`{k}` is reordered by the `sort` option, but {why}: with sort: alpha a procedure `solve(tolerance, matrix, n)` is "
               f"documented as `solve(matrix, n, tolerance)`", py.nloc(fn))



def r7_keywords_are_whole_words(ctx, rep):
    """prefix / attribute keywords are recognised as whole words, never by a substring test on the statement text
    (generic rule; shared with C07 and C18, whose result types and headings are derived from the same text)"""
    from . import common
    common.keyword_substring(ctx, rep)


def r8_placeholder_table(ctx, rep):
    """character literals are masked by the scanner of the *enclosing* container and replaced by indices into that
    container's table; an entity that resolves a placeholder while it is being constructed must use the table it was
    handed (`strings` constructor argument) or its parent's - its own `self.strings` is empty unless some construction
    site passes the argument"""
    py = ctx.py
    base_init = py.func("FortranBase.__init__")
    if "strings" not in [a.arg for a in base_init.args.args]:
        raise AnalysisError("FortranBase.__init__ has no `strings` parameter")
    pos = [a.arg for a in base_init.args.args].index("strings") - 1      # position among call arguments (self excluded)
    receives: Set[str] = set()
    n_sites = 0
    for _m, tree in py.modules.items():
        for c in ast.walk(tree):
            if isinstance(c, ast.Call) and isinstance(c.func, ast.Name) and c.func.id in py.classes and \
                    py.is_subclass(c.func.id, "FortranBase"):
                n_sites += 1
                if len(c.args) > pos or any(k.arg == "strings" for k in c.keywords):
                    receives.add(c.func.id)
    if n_sites < 15:
        raise AnalysisError(f"only {n_sites} construction sites of entity classes found")
    n = 0
    for cname in sorted(py.classes):
        if not py.is_subclass(cname, "FortranBase") or py.classes[cname].module != "sourceform":
            continue
        own = py.classes[cname].methods.get("_initialize")
        if own is None:
            continue
        reads = [a for a in ast.walk(own) if isinstance(a, ast.Attribute) and a.attr == "strings" and isinstance(a.ctx, ast.Load)
                 and isinstance(a.value, ast.Name) and a.value.id == "self"]
        def parentless_fallback(a) -> bool:
            # `self.parent.strings if self.parent is not None else self.strings`: the own table only stands in when there is no
            # enclosing scanner at all
            p = a
            while p is not own and p in py.parents:
                p = py.parents[p]
                if isinstance(p, (ast.IfExp, ast.If)) and "self.parent" in ast.unparse(p.test):
                    return True
            return False
        for a in reads:
            if parentless_fallback(a):
                continue
            n += 1
            users = {cname} | set(py.subclasses(cname))
            ok = bool(users & receives)
            rep.ob(f"{cname}._initialize reads self.strings: some construction site passes the table", ok,
                   "the literal table is handed to the constructor" if ok else
                   f"no construction site of {cname} passes `strings`, so `self.strings` is always empty here: a placeholder left in "
                   f"the statement head by the enclosing scanner (e.g. `character(kind=kind('a')) function f()`) raises IndexError "
                   f"and the whole file is dropped; the table that holds it is self.parent.strings", py.nloc(a), nontrivial=not ok)
    # vacuity guard: the rule is about a zero-count pattern after repair; count the _initialize methods inspected
    k = sum(1 for c in py.classes if py.is_subclass(c, "FortranBase") and "_initialize" in py.classes[c].methods)
    rep.ob("entity constructors inspected for reads of their own literal table", k >= 10, f"{k} _initialize methods, {n_sites} construction sites",
           "ford/sourceform.py", nontrivial=False)


def r9_kind_suffix(ctx, rep):
    """an enumerator value with a kind suffix is an integer literal: the suffix must be split off completely, also when
    the kind name contains underscores (`1_c_int`)"""
    py = ctx.py
    # the kind suffix of a numeric literal (`1_c_int`, `1.0_wp`) starts at the FIRST underscore: kind names may contain
    # underscores themselves.  Decided on the regex syntax tree: a greedy repeat that can run over `_` in front of the
    # separator puts the split at the last underscore
    import re._parser as sre
    pat, flags, node, _ = ctx.regexes["sourceform.KIND_SUFFIX_RE"]
    tree = sre.parse(pat, flags)
    gi = tree.state.groupdict.get("initial")
    items = list(tree)
    idx = next((i for i, (op, av) in enumerate(items) if str(op) == "SUBPATTERN" and av[0] == gi), None)
    if gi is None or idx is None or idx + 1 >= len(items) or str(items[idx + 1][0]) != "LITERAL" or items[idx + 1][1] != ord("_"):
        raise AnalysisError("KIND_SUFFIX_RE: expected (?P<initial>...)_(?P<kind>...)")
    body = list(items[idx][1][3])
    def can_match_underscore(op, av) -> bool:
        o = str(op)
        if o == "ANY":
            return True
        if o == "LITERAL":
            return av == ord("_")
        if o == "NOT_LITERAL":
            return av != ord("_")
        if o == "IN":
            neg = any(str(x[0]) == "NEGATE" for x in av)
            hit = any((str(x[0]) == "LITERAL" and x[1] == ord("_")) or (str(x[0]) == "RANGE" and x[1][0] <= ord("_") <= x[1][1])
                      or (str(x[0]) == "CATEGORY" and str(x[1]) in ("CATEGORY_WORD",)) for x in av)
            return hit != neg
        return True
    greedy_over_us = [(op, av) for op, av in body if str(op) == "MAX_REPEAT" and av[1] > 1 and any(can_match_underscore(o2, a2) for o2, a2 in av[2])]
    ok = not greedy_over_us
    rep.ob("KIND_SUFFIX_RE splits a numeric literal at the first underscore", ok,
           "the part before the separator cannot run greedily over an underscore" if ok else
           "`(?P<initial>.*)_` is greedy: for `1_c_int` the value becomes `1_c` and the kind `int`, so the enumerator is rejected "
           "as non-integer (the whole file is dropped) and initial values are shown with a piece of the kind name",
           py.nloc(node), witness=None if ok else "1_c_int")
    # (b) recognition, as a language inclusion: every signed-int-literal-constant with a kind parameter (R708: [sign] digit-string
    # _ kind-param, kind-param a digit-string or a name) is accepted by KIND_SUFFIX_RE the way it is applied (`.match`); a literal
    # that is not accepted goes to int() unchanged - `-1_c_int` raises and the file is dropped, `5_4` is read as 54
    rx = ctx.rx
    rks = py.func("sourceform.remove_kind_suffix")
    how = {c.func.attr for c in py.walk_calls(rks) if isinstance(c.func, ast.Attribute) and c.func.attr in ("match", "fullmatch", "search")}
    if len(how) != 1:
        raise AnalysisError(f"remove_kind_suffix: expected one way of applying the pattern, found {sorted(how)}")
    lang = {"match": rx.match_lang, "fullmatch": rx.full, "search": rx.search_lang}[how.pop()](pat, flags)
    ref = rx.full(r"[+-]?[0-9]+_([0-9]+|[A-Za-z][A-Za-z0-9_]*)", 0)
    try:
        w = rx.subset_witness(ref, lang)
    except rx.Unsupported as e_:
        raise AnalysisError(f"KIND_SUFFIX_RE not understood: {e_}")
    rep.ob("KIND_SUFFIX_RE recognises every signed integer literal with a kind parameter", w is None,
           "[sign] digits _ (digits | name) is included in what the pattern accepts" if w is None else
           f"`{w}` is an integer literal with a kind parameter but the pattern does not accept it: the text reaches int() with its "
           f"suffix (a `ValueError` that drops the file, or - for `5_4` - the value 54)", py.nloc(node), witness=w)


def r11_two_word_types(ctx, rep):
    """`double precision` may be written with any number of blanks between the two words, including none.  The recogniser
    (VAR_TYPE_STRING) and the normalisers that map every spelling onto one displayed name are separate regular expressions: each
    two-word alternative the recogniser accepts has to be included in the language of a normaliser, otherwise that spelling is
    documented under a name of its own (`doubleprecision`).  Decided as a language inclusion (E2)."""
    py, rx = ctx.py, ctx.rx
    env = py.module_env("sourceform")
    vts = env.get("VAR_TYPE_STRING")
    if not isinstance(vts, str):
        raise AnalysisError("sourceform.VAR_TYPE_STRING is not a constant string")
    alts = [a.lstrip("^") for a in vts.split("|") if "\\s" in a or " " in a]
    pt = py.ifunc("sourceform.parse_type")     # canonical form: a table-driven loop over (regex, name) pairs is unrolled
    # normalisers: regular expressions that parse_type consults (directly, or through a module-level table it iterates) and whose
    # pattern spells a two-word type
    norm: List[Tuple[str, str, int]] = []
    reach = {x.id for x in ast.walk(pt) if isinstance(x, ast.Name)}
    tree = py.modules["sourceform"]
    for _ in range(2):
        for st in tree.body:
            if isinstance(st, (ast.Assign, ast.AnnAssign)):
                tg = st.targets[0] if isinstance(st, ast.Assign) else st.target
                if isinstance(tg, ast.Name) and tg.id in reach and st.value is not None:
                    reach |= {x.id for x in ast.walk(st.value) if isinstance(x, ast.Name)}
    for key, (pat, flags, _node, mod) in ctx.regexes.items():
        nm = key.split(".")[-1]
        if mod == "sourceform" and nm in reach and key.startswith("sourceform.") and re.search(r"double", pat, re.I) and nm != "VAR_TYPE_STRING":
            norm.append((nm, pat, flags))
    if not alts or not norm:
        raise AnalysisError(f"two-word type alternatives {alts} / normalisers {[n for n, _p, _f in norm]} not found")
    for a in alts:
        La = rx.full(a, re.IGNORECASE)
        covered, wit = False, None
        for nm, pat, flags in norm:
            w = rx.subset_witness(La, rx.prefix_lang(pat, flags) if False else rx.full(pat + ".*", flags))
            if w is None:
                covered = True
                break
            wit = wit or w
        rep.ob(f"every spelling of `{a}` is normalised", covered,
               "included in the language of a normaliser" if covered else
               f"the recogniser accepts `{wit}` but no normaliser ({', '.join(n for n, _p, _f in norm)}) matches it: that spelling is "
               f"shown as a type of its own", py.nloc(pt), witness=wit)


def r12_template_name_comparisons(ctx, rep):
    """Fortran names are case-insensitive, FORD keeps them as written.  A template that decides something by comparing two names
    (`proc.name != proc.retvar.name`: show a result clause; `tb.name != tb.bindings[0].name`: show `=> target`) must compare
    them case-insensitively, otherwise `function Foo(x)` with `real :: foo` is documented with an invented `result(foo)`."""
    from jinja2 import nodes as N
    j = ctx.j
    n = 0

    def name_like(e) -> bool:
        while isinstance(e, N.Filter):
            e = e.node
        return isinstance(e, N.Getattr) and e.attr == "name"

    def folded(e) -> bool:
        while isinstance(e, N.Filter):
            if e.name in ("lower", "upper"):
                return True
            e = e.node
        return False
    for tname, tree in sorted(j.templates.items()):
        for c in tree.find_all(N.Compare):
            for op in c.ops:
                if op.op in ("eq", "ne") and name_like(c.expr) and name_like(op.expr):
                    n += 1
                    ok = folded(c.expr) and folded(op.expr)
                    from ..jmodel import sym as _sym
                    rep.ob(f"template={tname} comparison `{_sym(c.expr, {})}` / `{_sym(op.expr, {})}`", ok,
                           "compared case-insensitively" if ok else
                           "two entity names are compared as written: the same program with a name spelled in another case is "
                           "rendered differently (an invented `result(...)` clause / `=> target`)", f"ford/templates/{tname}:{c.lineno}")
    if n < 1:
        raise AnalysisError("no comparison of two entity names found in the templates")


def r13_initial_value_verbatim(ctx, rep):
    """the initial value is documented as declared: nothing rewrites the text after the character literals were put back
    (shared with C18.R2 / C02.R7)"""
    from . import c18
    c18.r2_no_transform_after_restore(ctx, rep)


def r14_continuation_joins(ctx, rep):
    """a declaration split with `&` ... `&` is the same declaration: the reader removes the two & characters and nothing else
    (shared with C02.R5)"""
    from . import c02
    c02.r5_continuation(ctx, rep)


def r15_star_selector_with_blanks(ctx, rep):
    """`integer*4`, `integer *4` and `integer * 4` are one declaration (blanks between tokens are not significant).  The pattern
    that reads the old-style selector says so itself (`\\*\\s*(...)`), but the selector is first *cut out* of the statement by a
    character scanner, and that scanner ends the selector at the first blank outside parentheses: of `* 4` it keeps `*`.  If both
    hold, the blanks behind the star have to be removed before the cut - otherwise `integer * 4 :: n` is a "bad declaration" that
    rejects the whole file, and `character * (*)` loses its length."""
    py, rx = ctx.py, ctx.rx
    pt = py.ifunc("sourceform.parse_type")
    cut = [c for c in ast.walk(pt) if isinstance(c, ast.Call) and call_name(c).split(".")[-1] == "get_parens"]
    key = next((k for k in ctx.regexes if k.split(".")[-1] == "VARKIND_RE"), None)
    if not cut or key is None:
        rep.ob("the selector is not cut out by get_parens any more", True, "", py.nloc(pt), nontrivial=False)
        return
    gp = py.func("utils.get_parens")
    # characters at which the scanner returns: the operands of `char in (...)` / `char == ...` in a test that guards a return
    stops = set()
    for i in ast.walk(gp):
        if isinstance(i, ast.If) and any(isinstance(x, ast.Return) for x in i.body):
            for cmp_ in ast.walk(i.test):
                if isinstance(cmp_, ast.Compare) and len(cmp_.ops) == 1 and isinstance(cmp_.ops[0], (ast.In, ast.Eq)):
                    for k in ast.walk(cmp_.comparators[0]):
                        if isinstance(k, ast.Constant) and isinstance(k.value, str):
                            stops.update(k.value if isinstance(cmp_.ops[0], ast.In) and isinstance(cmp_.comparators[0], ast.Constant) else [k.value])
                if isinstance(cmp_, ast.Call) and isinstance(cmp_.func, ast.Attribute) and cmp_.func.attr == "isspace":
                    stops.add(" ")
    pat, flags, node, _ = ctx.regexes[key]
    try:
        reads_blank = rx.subset_witness(rx.full(r"\* +[0-9]", 0), rx.search_lang(pat, flags)) is None
    except (rx.Unsupported, rx.Budget) as e:
        raise AnalysisError(f"{key}: {e}")
    if " " not in stops or not reads_blank:
        rep.ob("blanks behind the star of a selector", True,
               "the cutter does not stop at blanks" if " " not in stops else "the selector pattern does not allow them either",
               py.nloc(gp), nontrivial=False)
        return
    for c in cut:
        made = astq.expand_locals(c.args[0], pt) if c.args else []
        removed = False
        for m in made:
            for x in ast.walk(m):
                if isinstance(x, ast.Call) and isinstance(x.func, ast.Attribute) and x.func.attr == "sub":
                    pe = x.args[0] if isinstance(x.func.value, ast.Name) and x.func.value.id == "re" and x.args else x.func.value
                    ptxt = pe.value if isinstance(pe, ast.Constant) and isinstance(pe.value, str) else None
                    if ptxt is None and isinstance(pe, ast.Name):
                        k2 = next((k for k in ctx.regexes if k.split(".")[-1] == pe.id), None)
                        ptxt = ctx.regexes[k2][0] if k2 else None
                    if ptxt is not None:
                        try:
                            if rx.subset_witness(rx.full(r"\* ", 0), rx.search_lang(ptxt, 0)) is None:
                                removed = True
                        except (rx.Unsupported, rx.Budget):
                            pass
        rep.ob("`* 4`: blanks behind the star are removed before the selector is cut out", removed,
               "the text handed to get_parens went through a substitution that takes them out" if removed else
               f"{key} reads `* 4`, but `{ast.unparse(c)[:50]}` stops at the blank and hands it `*`: `integer * 4 :: n` raises "
               f"\"Bad declaration\" (the file is rejected), `character * (*)` is recorded with length 1", py.nloc(c))


RULES = [
    RuleSpec("C01.R5", r5_character_slots, "character selector slots are filled at most once", floor=2),
    RuleSpec("C01.R1", r1_case_neutral, "case-neutral recognition", floor=24),
    RuleSpec("C01.R2", r2_lower_discipline, "lower-case discipline for keyword comparisons", floor=25),
    RuleSpec("C01.R4", r4_container_matrix, "container x construct matrix", floor=50),
    RuleSpec("C01.R3", r3_dispatch_matrix, "dispatch matrix vs statement-head languages", floor=151),
    RuleSpec("C01.R8", r8_placeholder_table, "placeholders are resolved against the table that holds them", floor=1),
    RuleSpec("C01.R9", r9_kind_suffix, "numeric kind suffix is split at the first underscore", floor=1),
    RuleSpec("C01.R7", r7_keywords_are_whole_words, "keywords are recognised as whole words", floor=1),
    RuleSpec("C01.R6", r6_order_bearing_collections, "order-bearing collections are never sorted", floor=2),
    RuleSpec("C01.R11", r11_two_word_types, "two-word type keywords are normalised in every spelling", floor=2),
    RuleSpec("C01.R12", r12_template_name_comparisons, "templates compare names case-insensitively", floor=1),
    RuleSpec("C01.R13", r13_initial_value_verbatim, "initial values are not rewritten after their literals were put back (shared with C18.R2)", floor=2),
    RuleSpec("C01.R15", r15_star_selector_with_blanks, "a `*` selector written with blanks is the same selector", floor=1),
    RuleSpec("C01.R14", r14_continuation_joins, "continuation joining removes exactly the & characters (shared with C02.R5)", floor=3),
]
