"""C14 — fixed-form sources document the same as their free-form equivalent (structural clauses)."""
from __future__ import annotations

import ast
import re
from typing import Dict, List, Optional, Set, Tuple

from ..core import AnalysisError, RuleSpec
from ..pymodel import call_name
from .. import astq

EXPLANATION = (
    "Two necessary conditions of the fixed/free equivalence. R1 (column table agreement): every "
    "index, slice and length constant applied to the raw card in FortranLine (normalised: x[a] == "
    "x[a:a+1], len(x) <= 6 == len(x) < 7) is compared with the card layout of the standard as the "
    "property states it - comment characters {C, c, *, !} in column 1, label field columns 1-5, "
    "continuation column 6 with 'not a continuation' iff blank or 0, statement field from column 7, "
    "text limit column 72 applying only under length_limit - and the three users of the long-line case "
    "use one predicate; the continuation mark goes onto the buffered *statement* line (index 0 of the "
    "line stack), not onto an intervening comment. R2 (form selection plumbing): `fixed` originates "
    "from `extension in fixed_extensions`, `length_limit` from settings.fixed_length_limit, both reach "
    "convertToFree and are forwarded to the reader created for an included file; an extension cannot be "
    "both fixed and free. The equivalence of the two renderings itself is a relation between two runs "
    "and is not decided."
    " Added after waves 6/7 - a `!` in column 6 is a continuation mark, not a comment; the continuation mark is put before a trailing comment."
)
ASSUMPTIONS = ["the card layout of F2008 3.3.2 as restated in the property text"]


def _method(py, cls, name):
    ci = py.cls(cls)
    for k, v in ci.methods.items():
        if k == name or k.endswith("__" + name.lstrip("_")) or k == f"_{cls}{name}":
            return py.ifunc(f"{cls}.{k}")      # canonical form: a predicate wrapped in a private property reads like the inline test
    raise AnalysisError(f"{cls}.{name} not found")


INF = 10 ** 9


class Cards:
    """Column arithmetic on the raw card: which columns (1-based, inclusive) of `line` does an expression read?"""

    def __init__(self, py, cls: str):
        self.py, self.cls = py, cls
        self.env = py.module_env("fixed2free2")
        self.methods = py.cls(cls).methods

    def const(self, n: Optional[ast.AST]) -> Optional[int]:
        if n is None:
            return None
        v = self.py.eval_const(n, self.env)
        if isinstance(v, int) and not isinstance(v, bool):
            return v
        if isinstance(n, ast.UnaryOp) and isinstance(n.op, ast.USub):
            v = self.const(n.operand)
            return -v if v is not None else None
        return None

    def closure(self, expr: ast.AST, fn: ast.AST) -> List[ast.AST]:
        """the expression and the local definitions (and one level of `self.helper()` return values) it is made of"""
        out = astq.expand_locals(expr, fn, depth=5, stop=("line",))
        extra = []
        for e in list(out):
            for c in ast.walk(e):
                if isinstance(c, ast.Call) and isinstance(c.func, ast.Attribute) and isinstance(c.func.value, ast.Name) \
                        and c.func.value.id == "self":
                    m = self._meth(c.func.attr)
                    if m is not None:
                        for r in astq.returns(m):
                            extra += astq.expand_locals(r, m, depth=5, stop=("line",))
        return out + extra

    def _meth(self, name: str):
        for k, v in self.methods.items():
            if k == name or k == f"_{self.cls}{name}":
                return v
        return None

    def columns(self, exprs: List[ast.AST], var: str = "line") -> Set[Tuple[int, int]]:
        cols: Set[Tuple[int, int]] = set()
        for e in exprs:
            for n in ast.walk(e):
                if isinstance(n, ast.Subscript) and isinstance(n.value, ast.Name) and n.value.id == var:
                    sl = n.slice
                    if isinstance(sl, ast.Slice):
                        lo = self.const(sl.lower) if sl.lower is not None else 0
                        hi = self.const(sl.upper) if sl.upper is not None else INF
                        if lo is None or hi is None or lo < 0 or (hi is not INF and hi < 0):
                            continue
                        cols.add((lo + 1, hi))
                    else:
                        i = self.const(sl)
                        if i is not None and i >= 0:
                            cols.add((i + 1, i + 1))
        return cols

    def len_threshold(self, exprs: List[ast.AST], var: str = "line") -> Set[int]:
        """normalised thresholds T of tests `len(line) > T-1` (i.e. 'the card has at least T characters'); a test for
        'at most k' is returned as -(k) """
        out: Set[int] = set()
        for e in exprs:
            for n in ast.walk(e):
                if isinstance(n, ast.Compare) and len(n.ops) == 1:
                    l, r, op = n.left, n.comparators[0], n.ops[0]
                    def islen(x):
                        """0: len(line) (the card with its newline), 1: len(line.rstrip(..)) (newline removed), None: no"""
                        if not (isinstance(x, ast.Call) and call_name(x) == "len" and x.args):
                            return None
                        a = x.args[0]
                        if isinstance(a, ast.Name) and a.id == var:
                            return 0
                        if isinstance(a, ast.Call) and isinstance(a.func, ast.Attribute) and a.func.attr == "rstrip" and \
                                isinstance(a.func.value, ast.Name) and a.func.value.id == var and \
                                all(isinstance(g, ast.Constant) and set(str(g.value)) <= set("\r\n") for g in a.args):
                            return 1
                        return None
                    if islen(l) is not None and self.const(r) is not None:
                        k = self.const(r) + islen(l)
                    elif islen(r) is not None and self.const(l) is not None:
                        k = self.const(l) + islen(r)
                        op = {ast.Lt: ast.Gt, ast.Gt: ast.Lt, ast.LtE: ast.GtE, ast.GtE: ast.LtE}.get(type(op), type(op))()
                    else:
                        continue
                    if isinstance(op, ast.Gt):
                        out.add(k + 1)
                    elif isinstance(op, ast.GtE):
                        out.add(k)
                    elif isinstance(op, ast.LtE):
                        out.add(-k)
                    elif isinstance(op, ast.Lt):
                        out.add(-(k - 1))
        return out


def _attr_value(fn, attr: str) -> List[ast.AST]:
    return [v for _, v in astq.assignments(fn, f"self.{attr}") if v is not None]


def r1_columns(ctx, rep):
    py = ctx.py
    an = _method(py, "FortranLine", "__analyse")
    cv = _method(py, "FortranLine", "__convert")
    cl = _method(py, "FortranLine", "continueLine")
    cards = Cards(py, "FortranLine")

    def ob(name, ok, good, bad, node):
        rep.ob(name, ok, good if ok else bad, py.nloc(node))

    def role(fn, attr: str) -> List[ast.AST]:
        vals = _attr_value(fn, attr)
        if not vals:
            raise AnalysisError(f"FortranLine: self.{attr} is not assigned in {fn.name} (anchor vanished)")
        out = []
        for v in vals:
            out += cards.closure(v, fn)
        return out

    # comment cards: column 1 in {C, c, *, !}
    exprs = role(an, "isComment")
    tests = [n for e in exprs for n in ast.walk(e) if isinstance(n, ast.Compare) and isinstance(n.ops[0], ast.In)]
    chars: Set[str] = set()
    for t in tests:
        v = py.eval_const(t.comparators[0], cards.env)
        if isinstance(v, (str, tuple, list, set)):
            chars |= set(v)
    cols = cards.columns([x for t in tests for x in cards.closure(t.left, an)])
    ob("comment characters in column 1", chars == set("cC*!"), "column-1 comment characters are {C, c, *, !}",
       f"column-1 comment characters are {sorted(chars)} (the standard's set is C, c, *, !)", an)
    ob("column 1 is line[0]", cols == {(1, 1)}, "the comment test reads column 1",
       f"the comment test reads columns {sorted(cols)} of the card", an)
    cols = cards.columns(role(an, "label"))
    ob("label field is columns 1-5", cols == {(1, 5)}, "label = columns 1-5", f"the label is taken from columns {sorted(cols)}", an)
    nc = role(an, "isNewComment")
    cols = cards.columns(nc)

    def first_nonblank_bang(e: ast.AST) -> bool:
        """`<line stripped of leading blanks>` starts with `!`: .lstrip()/.strip() followed by startswith('!') / [0] == '!' / [:1] == '!'"""
        for n in ast.walk(e):
            recv = None
            if isinstance(n, ast.Call) and isinstance(n.func, ast.Attribute) and n.func.attr == "startswith" and n.args and \
                    isinstance(n.args[0], ast.Constant) and n.args[0].value == "!":
                recv = n.func.value
            if isinstance(n, ast.Compare) and len(n.ops) == 1 and isinstance(n.ops[0], (ast.Eq, ast.NotEq)) and \
                    isinstance(n.comparators[0], ast.Constant) and n.comparators[0].value == "!" and isinstance(n.left, ast.Subscript):
                recv = n.left.value
            if recv is None:
                continue
            for x in [recv] + astq.expand_locals(recv, an, depth=4, stop=("line",)):
                if any(isinstance(c, ast.Call) and isinstance(c.func, ast.Attribute) and c.func.attr in ("lstrip", "strip")
                       for c in ast.walk(x)):
                    return True
        return False
    by_first_char = any(first_nonblank_bang(e) for e in nc)
    if by_first_char:
        # the position of that `!` must be told apart from column 6 (index 5): a comparison of a computed column with 5 / 6, or a
        # test of the column-6 character itself
        six = any(isinstance(n, ast.Compare) and len(n.ops) == 1 and
                  any(isinstance(c, ast.Constant) and c.value in (5, 6) for c in [n.left, n.comparators[0]]) for e in nc for n in ast.walk(e)) \
            or (6, 6) in cols
        ob("a `!` comment is not looked for in column 6", six,
           "the first visible character is tested, with column 6 excluded",
           "a line is taken for a comment whenever its first visible character is `!` - also when that is column 6, the continuation "
           "column, where any character other than blank and 0 (also `!`) marks a continuation line", an)
    else:
        ob("a `!` comment is not looked for in column 6", bool(cols) and all(1 <= a and b <= 5 for a, b in cols),
           f"the `!` test reads columns {sorted(cols)}",
           f"the `!`-comment test reads columns {sorted(cols)}: column 6 is the continuation column, any character there other than "
           f"blank and 0 - also `!` - marks a continuation line, it does not start a comment", an)
    # comment lines and blank lines may stand between a statement and its continuation (3.3.3.1): they must not be taken for the
    # statement line - otherwise the continuation mark is put on them and the statement itself is cut short.  A `!` comment can
    # start in any column but 6, so it has to be recognised by the first visible character, not only in the label field; a line of
    # blanks only (of any length) is no statement either.
    reg = role(an, "is_regular")
    flags = {n.attr for e in reg for n in ast.walk(e) if isinstance(n, ast.Attribute) and ast.unparse(n.value) == "self"}
    ob("a comment that starts beyond the label field is a comment line", by_first_char,
       "`!` comments are recognised by the first visible character of the card",
       "a card with blanks in columns 1-6 and a `!` comment after them counts as a statement: it receives the continuation mark of the "
       "card that follows, the statement before it is not continued and the file is rejected or documented wrongly", an)
    blank = any(any(isinstance(c, ast.Call) and isinstance(c.func, ast.Attribute) and c.func.attr in ("isspace", "strip", "lstrip", "rstrip")
                    for c in ast.walk(x)) for f_ in flags for v in _attr_value(an, f_) for x in cards.closure(v, an)
                if f_ not in ("isContinuation",))
    ob("a card of blanks only is not a statement line", blank,
       "blank cards are not `regular` whatever their length",
       "only cards of at most 6 characters count as blank: a longer card of blanks between a statement and its continuation receives "
       "the continuation mark", an)
    # the continuation mark has to go between the statement and a trailing comment: whatever does that has to look for `!`
    cli = cl
    rx = {name.split(".")[-1]: pat for name, (pat, *_rest) in py.regex_constants().items()}
    looks = False
    for x in ast.walk(cli):
        if isinstance(x, ast.Constant) and isinstance(x.value, str) and "!" in x.value and x.value.strip() != "":
            looks = True
        if isinstance(x, (ast.Name, ast.Attribute)) and "!" in str(rx.get(ast.unparse(x).split(".")[-1], "")):
            looks = True
    ob("the continuation mark is put before a trailing comment", looks,
       "continueLine separates a trailing `!` comment from the statement",
       "continueLine appends ` &` to whatever the line ends with: on `      subroutine foo(a, !! first` the mark lands inside the "
       "comment, the statement is not continued and `b)` on the next card becomes a statement of its own", cl)
    # ... and has to find it on every card: wherever the `!` stands after complete character literals (either delimiter, the
    # other one inside) - a language inclusion between "code with complete literals, then a comment" and what the pattern matches
    rxl = ctx.rx
    for name, (pat, flags, node, _mod) in sorted(py.regex_constants().items()):
        short = name.split(".")[-1]
        if "!" not in pat or not any(isinstance(x, (ast.Name, ast.Attribute)) and ast.unparse(x).split(".")[-1] == short for x in ast.walk(cli)):
            continue
        how = {c.func.attr for c in ast.walk(cli) if isinstance(c, ast.Call) and isinstance(c.func, ast.Attribute)
               and c.func.attr in ("match", "search", "fullmatch") and ast.unparse(c.func.value).split(".")[-1] == short}
        if len(how) != 1:
            continue
        try:
            lang = {"match": rxl.match_lang, "search": rxl.search_lang, "fullmatch": rxl.full}[how.pop()](pat, flags)
            w = rxl.subset_witness(rxl.full(r"""(?:[^"'!]|'[^']*'|"[^"]*")*!.*""", 0), lang)
        except rxl.Unsupported as e_:
            raise AnalysisError(f"{short} not understood: {e_}")
        ob(f"{short} finds the trailing comment after any complete character literals", w is None,
           "every card `code-with-literals ! comment` is matched",
           f"`{w}` is code with complete character literals followed by a comment, but the pattern does not match it: the continuation "
           f"mark is appended behind the comment and the statement is cut at the card boundary", cl)
    exprs = role(an, "isContinuation")
    cols = cards.columns(exprs)
    ob("continuation column is column 6", cols == {(6, 6)}, "the continuation test reads column 6",
       f"the continuation test reads columns {sorted(cols)}", an)
    top = _attr_value(an, "isContinuation")[0]
    # decided on the truth table of the expression over the atoms blank(col 6), zero(col 6), regular line: every equivalent
    # spelling (De Morgan, reordered conjuncts, `not in`) is accepted
    def atom(e):
        if isinstance(e, ast.Call) and isinstance(e.func, ast.Attribute) and e.func.attr == "isspace" and not e.args:
            return ("blank", True)
        if isinstance(e, ast.Compare) and len(e.ops) == 1 and isinstance(e.ops[0], (ast.Eq, ast.NotEq)) and \
                any(isinstance(x, ast.Constant) for x in (e.left, e.comparators[0])):
            # `c == '0'` and `'0' == c` are the same test
            v = (e.comparators[0] if isinstance(e.comparators[0], ast.Constant) else e.left).value
            if v in ("0", " "):
                return ("zero" if v == "0" else "blank", isinstance(e.ops[0], ast.Eq))
        if isinstance(e, ast.Compare) and len(e.ops) == 1 and isinstance(e.ops[0], (ast.In, ast.NotIn)):
            try:
                vals = set(ast.literal_eval(e.comparators[0]))
            except Exception:
                return None
            if vals == {" ", "0"}:
                return ("blank_or_zero", isinstance(e.ops[0], ast.In))
        if isinstance(e, (ast.Attribute, ast.Name)) and ast.unparse(e).split(".")[-1] == "is_regular":
            return ("regular", True)
        return None
    tt = astq.truth_table(top, atom)
    if tt is None:
        raise AnalysisError(f"fixed2free2: isContinuation = `{ast.unparse(top)[:80]}` is not a boolean combination of the column-6 tests")
    names, table = tt
    def want(env):
        boz = env.get("blank_or_zero", False) or env.get("blank", False) or env.get("zero", False)
        return (not boz) and env.get("regular", True)
    feasible = [bits for bits in table if not (dict(zip(names, bits)).get("blank") and dict(zip(names, bits)).get("zero"))]
    wrong = [dict(zip(names, bits)) for bits in feasible if table[bits] != want(dict(zip(names, bits)))]
    ok = not wrong and "regular" in names and ("blank" in names or "blank_or_zero" in names) and ("zero" in names or "blank_or_zero" in names)
    ob("continuation iff column 6 is neither blank nor zero", ok,
       "isContinuation = not (blank or '0') and regular line",
       f"isContinuation = {ast.unparse(top)}: wrong for {wrong[:1] or 'a card whose column 6 / regularity is not tested'}", an)
    th = cards.len_threshold(role(an, "isShort"))
    ob("short card has no statement field", th == {-6}, "isShort = at most 6 characters", f"isShort thresholds {sorted(th)}", an)
    exprs = role(an, "isLong")
    th = cards.len_threshold(exprs)
    top = _attr_value(an, "isLong")[0]
    ok = th == {74} and "length_limit" in " ".join(ast.unparse(e) for e in exprs) and \
        isinstance(top, ast.BoolOp) and isinstance(top.op, ast.And)
    ob("long card: beyond column 72 (+newline) and only under length_limit", ok,
       "isLong = more than 73 characters and length_limit",
       f"isLong = {ast.unparse(top)}: the column-72 limit is applied regardless of the fixed_length_limit option (or at another column)", an)
    # the split at column 72
    ex = [v for v in _attr_value(an, "excess_line") if not (isinstance(v, ast.Constant) and v.value == "")]
    if not ex:
        raise AnalysisError("FortranLine.__analyse: excess_line is never set to the text beyond the limit")
    ecols = cards.columns([x for v in ex for x in cards.closure(v, an)])
    trunc = cards.columns([v for _, v in astq.assignments(an, "line") if v is not None and not ast.unparse(v).startswith("self.")])
    ok = (1, 72) in trunc
    ob("the statement of a long card is columns 1-72", ok, "statement = columns 1-72",
       f"the column-72 split changed: the statement keeps {sorted(trunc)}", an)
    # what is beyond column 72 is ignored: it must not travel on with the converted line.  Re-attached as a trailing `!`
    # comment it is not ignored: an inline doc comment on the card runs to the end of the line and absorbs it, and an excess
    # that itself starts with `!` (`!SEQ`, `!! text`) turns `!` + excess into a doc comment
    ok = not ecols
    ob("text beyond column 72 is dropped", ok, "nothing of columns 73.. is carried over",
       f"columns {sorted(ecols)} are re-attached to the converted line as a comment: `      INTEGER K  !! doc` + sequence field gives K the "
       f"documentation `doc ... !SEQ00020`, and `      REAL X` + `!! text` in columns 73.. documents X with `! text`", an)
    cols = cards.columns(role(cv, "code"))
    ob("statement field starts in column 7", cols == {(7, INF)}, "code = columns 7..", f"code is taken from columns {sorted(cols)}", cv)
    # comment cards become ! comments: under isComment, line_conv = '!' + columns 2..
    ev = astq.trace(cv)
    alias = {"self.line_conv"}
    for _ in range(3):
        for e in ev:
            if e.kind == "assign" and e.target in alias and e.value is not None:
                alias |= {n.id for n in ast.walk(e.value) if isinstance(n, ast.Name) and n.id not in ("line",)}
    cm = [e for e in ev if e.kind == "assign" and e.target in alias
          and any(c == "self.isComment" for c in e.cond_texts())]
    ok = bool(cm) and cards.columns(cards.closure(cm[0].value, cv)) == {(2, INF)} and \
        any(isinstance(x, ast.Constant) and isinstance(x.value, str) and x.value.startswith("!") for x in ast.walk(cm[0].value))
    ob("comment cards become ! comments", ok, "", "comment conversion changed", cv)
    # the long-line predicate is shared by its three users
    users = []
    for fn in (an, cv, cl):
        for n in ast.walk(fn):
            if isinstance(n, ast.If):
                t = n.test
                neg = False
                while isinstance(t, ast.UnaryOp) and isinstance(t.op, ast.Not):
                    t, neg = t.operand, not neg
                exp = cards.closure(t, fn)
                txts = [ast.unparse(e) for e in exp]
                if any("isLong" in x for x in txts):
                    # canonical form: the set of conjuncts of the (helper-expanded) predicate
                    core = next((e for e in exp[1:] if "isLong" in ast.unparse(e)), exp[0]) if "isLong" not in txts[0] else exp[0]
                    conj = sorted(ast.unparse(v) for v in (core.values if isinstance(core, ast.BoolOp) and isinstance(core.op, ast.And) else [core]))
                    users.append((fn.name.split("__")[-1], tuple(conj)))
    preds = {p for _, p in users}
    ok = len(users) >= 3 and preds == {("self.isLong", "self.is_regular")}
    ob("the three long-line users test the same predicate", ok, "analyse/convert/continueLine all test isLong and is_regular",
       f"long-line handling is keyed differently in {users}: truncation and continuation disagree when the limit is off", cl)
    # continuation mark of a long card: placed within the first 72 columns, the excess re-attached after column 72
    cev = astq.trace(cl)
    lc = [e for e in cev if e.kind == "assign" and e.target == "self.line_conv" and any("excess_line" in ast.unparse(x) for x in cards.closure(e.value, cl))]
    ok = False
    if lc:
        exp = cards.closure(lc[0].value, cl)
        cut = cards.columns(exp, var="self.line_conv") | {(1, cards.const(n.slice.upper)) for e in exp for n in ast.walk(e)
                                                         if isinstance(n, ast.Subscript) and ast.unparse(n.value) == "self.line_conv"
                                                         and isinstance(n.slice, ast.Slice) and n.slice.lower is None and cards.const(n.slice.upper) is not None}
        pads = {cards.const(c.args[0]) for e in exp for c in ast.walk(e) if isinstance(c, ast.Call) and isinstance(c.func, ast.Attribute)
                and c.func.attr == "ljust" and c.args}
        pads |= {int(m.group(1)) for e in exp for f in ast.walk(e) if isinstance(f, ast.FormattedValue) and f.format_spec is not None
                 for m in [re.fullmatch(r"<(\d+)", py.eval_const(f.format_spec, cards.env) or "")] if m}
        amp = any(isinstance(x, ast.Constant) and isinstance(x.value, str) and "&" in x.value for e in exp for x in ast.walk(e))
        ok = cut == {(1, 72)} and pads == {72} and amp
    ob("continuation mark of a long card is placed before column 73", ok, "", "continueLine's column arithmetic changed", cl)
    # convertToFree: the mark goes onto the buffered statement
    cf = py.func("fixed2free2.convertToFree")
    calls = [c for c in py.walk_calls(cf) if isinstance(c.func, ast.Attribute) and c.func.attr == "continueLine"]
    recv = calls[0].func.value if len(calls) == 1 else None
    ok = recv is not None and isinstance(recv, ast.Subscript) and cards.const(recv.slice) == 0
    ob("continuation mark goes onto the buffered statement line", ok,
       "the first buffered card (the last regular statement) is continued; comment/blank cards buffered after it are not",
       f"`{ast.unparse(recv) if recv is not None else '?'}.continueLine()`: with a comment or blank card between a "
       f"statement and its continuation card the & lands on the comment and the statement is not joined", cf)
    cev = astq.trace(cf)
    stack = ast.unparse(recv.value) if isinstance(recv, ast.Subscript) else "linestack"
    cont = [e for e in cev if e.kind == "call" and e.node in calls]
    flush = [e for e in cev if e.kind == "assign" and e.target == stack and e.loops and isinstance(e.value, (ast.List, ast.Call))]
    ok = bool(cont) and any("isContinuation" in c for c in cont[0].cond_texts()) and any("is_regular" in c for c in cont[0].cond_texts()) \
        and bool(flush) and any("is_regular" in c for c in flush[0].cond_texts()) and not any("isContinuation" in c for c in flush[0].cond_texts())
    ob("line stack is flushed at every regular card", ok, "", "convertToFree's buffering changed", cf)


def r2_form_selection(ctx, rep):
    py = ctx.py
    ff = py.func("Project._fortran_file")
    sdef = py.func("FortranSourceFile.__init__")
    ctor = [c for c in py.walk_calls(ff) if call_name(c) == "FortranSourceFile"]
    if not ctor:
        raise AnalysisError("_fortran_file: FortranSourceFile call not found")
    b = astq.bind_args(ctor[0], sdef, skip_self=True)
    if "fixed" not in b:
        raise AnalysisError("FortranSourceFile(...) is called without the `fixed` argument")

    def is_fixed_test(e: ast.AST) -> bool:
        return isinstance(e, ast.Compare) and len(e.ops) == 1 and isinstance(e.ops[0], ast.In) and \
            "fixed_extensions" in ast.unparse(e.comparators[0]) and "extension" in ast.unparse(e.left)
    fx = b["fixed"]
    vals = astq.expand_locals(fx, ff)
    if any(is_fixed_test(v) for v in vals):
        rep.ob("fixed form is selected by the file extension", True, f"fixed = {ast.unparse(fx)}", py.nloc(ctor[0]))
    elif isinstance(fx, ast.Name) and fx.id in [a.arg for a in ff.args.args + ff.args.kwonlyargs]:
        # decided by the callers: every call site must pass a value that equals `extension in fixed_extensions` on its path
        pi = py.func("Project.__init__")
        ev = astq.trace(pi)
        sites = [e for e in ev if e.kind == "call" and call_name(e.node).endswith("_fortran_file")]
        if not sites:
            raise AnalysisError("Project.__init__: no call of _fortran_file found")
        for e in sites:
            bb = astq.bind_args(e.node, ff, skip_self=True)
            v = bb.get(fx.id)
            conds = e.cond_texts()
            pos = any(not c.startswith("not (") and "fixed_extensions" in c and " in " in c for c in conds)
            neg = any(c.startswith("not (") and "fixed_extensions" in c and " in " in c for c in conds)
            if v is not None and is_fixed_test(v):
                ok = True
            elif v is not None and isinstance(v, ast.Constant) and v.value is True:
                # `True` is right only if the path says "in fixed_extensions" and no earlier test could have taken the file
                first = conds and not conds[0].startswith("not (") if conds else False
                ok = pos and all(not c.startswith("not (") or "fixed_extensions" in c for c in conds if " in " in c and "extension" in c)
            else:
                ok = neg      # default / False: the path must exclude the fixed extensions
            rep.ob(f"fixed form is selected by the file extension (call under {conds[-1:] or ['always']})", ok,
                   "the value passed for `fixed` agrees with `extension in fixed_extensions` on this path" if ok else
                   f"this call passes fixed={ast.unparse(v) if v is not None else 'default'} under {conds}: the free-form and "
                   f"fixed-form extension sets overlap at run time (extensions |= fpp_extensions, which contain F/FOR), so a "
                   f"fixed-form .F/.FOR file is read as free form", py.nloc(e.node))
    else:
        rep.ob("fixed form is selected by the file extension", False,
               f"`fixed` is `{ast.unparse(fx)}`, not a test of the extension against fixed_extensions", py.nloc(ctor[0]))
    pi = py.func("Project.__init__")
    asg = astq.assignments(pi, "self.fixed_extensions")
    ok = bool(asg) and all("fixed_extensions" in ast.unparse(v) and "settings" in ast.unparse(v) for _, v in asg)
    rep.ob("project takes fixed_extensions from the settings", ok, "", py.nloc(pi))
    fr = py.func("FortranReader.__init__")
    rd = [c for c in py.walk_calls(sdef) if call_name(c) == "FortranReader"]
    if not rd:
        raise AnalysisError("FortranSourceFile.__init__: FortranReader call not found")
    b = astq.bind_args(rd[0], fr, skip_self=True)
    # (the limit may come through a local or an optional parameter that nobody supplies and that defaults to the setting)
    srcs = astq.value_sources(py, sdef, b["length_limit"]) if "length_limit" in b else []
    ok = "fixed" in b and ast.unparse(b["fixed"]) == "fixed" and bool(srcs) and all(isinstance(x, ast.Attribute) and x.attr == "fixed_length_limit" for x in srcs)
    rep.ob("source file passes fixed and fixed_length_limit to the reader", ok,
           "FortranReader(..., fixed=fixed, length_limit=settings.fixed_length_limit)" if ok else
           f"reader arguments fixed={ast.unparse(b['fixed']) if 'fixed' in b else 'default'}, "
           f"length_limit={ast.unparse(b['length_limit']) if 'length_limit' in b else 'default'}", py.nloc(rd[0]))
    ev = astq.trace(fr)
    cvt = [e for e in ev if e.kind == "call" and call_name(e.node) == "convertToFree"]
    cdef = py.func("fixed2free2.convertToFree")
    ok = bool(cvt) and any(c == "fixed" for c in cvt[0].cond_texts()) and \
        ast.unparse(astq.bind_args(cvt[0].node, cdef).get("length_limit", ast.Constant(value=None))) == "length_limit"
    rep.ob("reader converts fixed form with the configured limit", ok,
           "convertToFree(self.reader, length_limit) under `if fixed`" if ok else
           "the length limit is not forwarded to convertToFree (or conversion is unconditional)", py.nloc(fr))
    ok = any(ast.unparse(v) == "fixed" for _, v in astq.assignments(fr, "self.fixed")) and \
        any(ast.unparse(v) == "length_limit" for _, v in astq.assignments(fr, "self.length_limit"))
    rep.ob("reader remembers form and limit for included files", ok, "", py.nloc(fr))
    inc = py.func("FortranReader.include")
    rd = [c for c in py.walk_calls(inc) if call_name(c) == "FortranReader"]
    if not rd:
        raise AnalysisError("FortranReader.include: nested FortranReader call not found")
    b = astq.bind_args(rd[0], fr, skip_self=True)
    ok = "fixed" in b and ast.unparse(b["fixed"]) == "self.fixed" and "length_limit" in b and ast.unparse(b["length_limit"]) == "self.length_limit"
    rep.ob("included files are read in the same form with the same limit", ok,
           "nested FortranReader(..., self.fixed, self.length_limit, ...)" if ok else
           f"nested reader gets fixed={ast.unparse(b['fixed']) if 'fixed' in b else 'default'}, "
           f"length_limit={ast.unparse(b['length_limit']) if 'length_limit' in b else 'default (True)'}",
           py.nloc(rd[0]))
    po = py.ifunc("ProjectSettings.__post_init__")      # canonical form: `next(generator, None)` searches are loops
    pev = astq.trace(po)
    ok = any(e.kind == "raise" and "ValueError" in e.text() and any("extensions" in c and " in " in c for c in e.cond_texts())
             and any("fixed" in x for x in e.cond_texts() + [ast.unparse(l.iter) for l in e.loops]) for e in pev)
    rep.ob("an extension cannot be both fixed and free form", ok, "", py.nloc(po))
    # nothing removes entries from fixed_extensions after validation: the free-form list is later merged with
    # fpp_extensions (which contain F / FOR), so "dropping the duplicates" would turn those into free form
    shrinks = []
    for q in ("ProjectSettings.__post_init__", "Project.__init__", "__init__.parse_arguments"):
        fq = py.func(q)
        for n in ast.walk(fq):
            if isinstance(n, ast.Assign) and any(ast.unparse(t).endswith(".fixed_extensions") for t in n.targets):
                v = n.value
                if any(isinstance(x, ast.comprehension) and x.ifs for x in ast.walk(v)) or \
                        (isinstance(v, ast.BinOp) and isinstance(v.op, ast.Sub)) or any(
                            isinstance(c, ast.Call) and call_name(c).split(".")[-1] in ("difference", "filter") for c in ast.walk(v)):
                    shrinks.append(n)
            if isinstance(n, ast.Call) and isinstance(n.func, ast.Attribute) and n.func.attr in ("remove", "pop", "clear", "discard") \
                    and ast.unparse(n.func.value).endswith(".fixed_extensions"):
                shrinks.append(n)
    rep.ob("fixed_extensions is never reduced", not shrinks,
           "no statement filters or removes fixed extensions" if not shrinks else
           f"`{ast.unparse(shrinks[0])[:80]}` removes extensions from fixed_extensions: `.F`/`.FOR` (also preprocessor extensions, "
           f"hence merged into the free-form list) lose their fixed-form status and are parsed as free form", py.nloc(shrinks[0]) if shrinks else py.nloc(po))
    lx = py.func("FortranSourceFile.__init__")
    ok = any(isinstance(n, (ast.IfExp, ast.If)) and "fixed" in ast.unparse(n.test) and "FortranFixedLexer" in ast.unparse(n) for n in ast.walk(lx))
    rep.ob("source listing uses the matching lexer", ok, "", py.nloc(lx), nontrivial=False)


def r3_labelled_call_forms(ctx, rep):
    """statements keep their label field: labelled calls are read in both forms (shared with C08.R4)"""
    from . import c08
    c08.r4_call_forms(ctx, rep)


def r4_labelled_end(ctx, rep):
    """a labelled END closes its unit in both forms (shared with C20.R3)"""
    from . import c20
    c20.r3_nesting_errors_raise(ctx, rep)


RULES = [
    RuleSpec("C14.R1", r1_columns, "column table agreement", floor=7),
    RuleSpec("C14.R2", r2_form_selection, "form selection plumbing", floor=4),
    RuleSpec("C14.R3", r3_labelled_call_forms, "statements keep their label field: labelled calls are read in both forms (shared with C08.R4)", floor=1),
    RuleSpec("C14.R4", r4_labelled_end, "a labelled END closes its unit in both forms (shared with C20.R3)", floor=1),
]
