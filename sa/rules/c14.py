"""C14 — fixed-form sources document the same as their free-form equivalent (structural clauses)."""
from __future__ import annotations

import ast
import re
from typing import Dict, List, Optional, Set, Tuple

from ..core import AnalysisError, RuleSpec
from ..pymodel import call_name

EXPLANATION = (
    "Two necessary conditions of the fixed/free equivalence. R1 (column table agreement): every "
    "index, slice and length constant applied to the raw card in FortranLine (normalised: x[a] == "
    "x[a:a+1], len(x) <= 6 == len(x) < 7) is compared with the card layout of the standard as the "
    "property states it - comment characters {C, c, *, !} in column 1, label field columns 1-5, "
    "continuation column 6 with 'not a continuation' iff blank or 0, statement field from column 7, "
    "text limit column 72 applying only under length_limit - and the three users of the long-line case "
    "use one predicate; the continuation mark goes onto the buffered *statement* line (index 0 of the "
    "line stack), not onto an intervening comment. R2 (form selection plumbing): `fixed` originates "
    "from `extension in fixed_extensions`, `length_limit` from settings.fixed_length_limit, both reach "
    "convertToFree and are forwarded to the reader created for an included file; an extension cannot be "
    "both fixed and free. The equivalence of the two renderings itself is a relation between two runs "
    "and is not decided."
)
ASSUMPTIONS = ["the card layout of F2008 3.3.2 as restated in the property text"]


def _method(py, cls, name):
    ci = py.cls(cls)
    for k, v in ci.methods.items():
        if k == name or k.endswith("__" + name.lstrip("_")) or k == f"_{cls}{name}":
            return v
    raise AnalysisError(f"{cls}.{name} not found")


def r1_columns(ctx, rep):
    py = ctx.py
    an = _method(py, "FortranLine", "__analyse")
    cv = _method(py, "FortranLine", "__convert")
    cl = _method(py, "FortranLine", "continueLine")
    t = ast.unparse(an)

    def assign(fn, target: str) -> Optional[str]:
        for n in ast.walk(fn):
            if isinstance(n, ast.Assign) and ast.unparse(n.targets[0]) == target:
                return ast.unparse(n.value)
        return None

    def ob(name, ok, good, bad, node):
        rep.ob(name, ok, good if ok else bad, py.nloc(node))

    v = assign(an, "self.isComment") or ""
    m = re.search(r"firstchar in '([^']*)'", v)
    chars = set(m.group(1)) if m else set()
    ob("comment characters in column 1", chars == set("cC*!"), "column-1 comment characters are {C, c, *, !}",
       f"column-1 comment characters are {sorted(chars)} (the standard's set is C, c, *, !)", an)
    v = assign(an, "firstchar") or ""
    ob("column 1 is line[0]", "line[0]" in v, "firstchar = line[0]", f"firstchar = {v}", an)
    v = assign(an, "self.label") or ""
    ob("label field is columns 1-5", "line[0:5]" in v, "label = line[0:5]", f"label = {v}", an)
    v = assign(an, "cont_char") or ""
    ob("continuation column is column 6", re.search(r"line\[5\] if len\(line\) >= 6", v) is not None,
       "cont_char = line[5] when the card has at least 6 columns", f"cont_char = {v}", an)
    v = assign(an, "self.isContinuation") or ""
    ok = "cont_char.isspace()" in v and "cont_char == '0'" in v and v.startswith("not (") and "self.is_regular" in v
    ob("continuation iff column 6 is neither blank nor zero", ok,
       "isContinuation = not (blank or '0') and regular line",
       f"isContinuation = {v}: a card with blank/0 in column 6 (or another character) is classified wrongly", an)
    v = assign(an, "self.isShort") or ""
    ob("short card has no statement field", v in ("len(line) <= 6", "len(line) < 7"), "isShort = len(line) <= 6", f"isShort = {v}", an)
    v = assign(an, "self.isLong") or ""
    ok = re.fullmatch(r"len\(line\) > 73 and self\.length_limit", v) is not None
    ob("long card: beyond column 72 (+newline) and only under length_limit", ok,
       "isLong = len(line) > 73 and self.length_limit",
       f"isLong = {v}: the column-72 limit is applied regardless of the fixed_length_limit option (or at another column)", an)
    ok = "self.excess_line = '!' + line[72:]" in t and "line = line[:72] + '\\n'" in t
    ob("text beyond column 72 becomes a comment", ok, "excess = '!' + line[72:], statement = line[:72]", "the column-72 split changed", an)
    v = assign(cv, "self.code") or ""
    ob("statement field starts in column 7", "line[6:] if len(line) > 6" in v, "code = line[6:]", f"code = {v}", cv)
    ok = "self.line_conv = '!' + line[1:]" in ast.unparse(cv)
    ob("comment cards become ! comments", ok, "", "comment conversion changed", cv)
    # the long-line predicate is shared by its three users
    users = []
    for fn in (an, cv, cl):
        for n in ast.walk(fn):
            if isinstance(n, ast.If) and "isLong" in ast.unparse(n.test):
                users.append((fn.name, ast.unparse(n.test).replace("not (", "").rstrip(")")))
    preds = {p for _, p in users}
    ok = len(users) == 3 and preds == {"self.isLong and self.is_regular"}
    ob("the three long-line users test the same predicate", ok, "analyse/convert/continueLine all test isLong and is_regular",
       f"long-line handling is keyed differently in {users}: truncation and continuation disagree when the limit is off", cl)
    ok = "self.line_conv[:72].rstrip() + ' &'" in ast.unparse(cl) and "temp.ljust(72) + self.excess_line" in ast.unparse(cl)
    ob("continuation mark of a long card is placed before column 73", ok, "", "continueLine's column arithmetic changed", cl)
    # convertToFree: the mark goes onto the buffered statement
    cf = py.func("fixed2free2.convertToFree")
    calls = [c for c in py.walk_calls(cf) if isinstance(c.func, ast.Attribute) and c.func.attr == "continueLine"]
    ok = len(calls) == 1 and ast.unparse(calls[0].func.value) == "linestack[0]"
    ob("continuation mark goes onto the buffered statement line", ok,
       "linestack[0] (the last regular statement) is continued; comment/blank cards buffered after it are not",
       f"`{ast.unparse(calls[0].func.value) if calls else '?'}.continueLine()`: with a comment or blank card between a "
       f"statement and its continuation card the & lands on the comment and the statement is not joined", cf)
    t = ast.unparse(cf)
    ok = "if convline.isContinuation and linestack" in t and "if convline.is_regular" in t and "linestack = []" in t
    ob("line stack is flushed at every regular card", ok, "", "convertToFree's buffering changed", cf)


def r2_form_selection(ctx, rep):
    py = ctx.py
    ff = py.func("Project._fortran_file")
    ctor = [c for c in py.walk_calls(ff) if call_name(c) == "FortranSourceFile"]
    if not ctor:
        raise AnalysisError("_fortran_file: FortranSourceFile call not found")
    args = [ast.unparse(a) for a in ctor[0].args]
    ok = len(args) >= 4 and args[3] == "extension in self.fixed_extensions"
    rep.ob("fixed form is selected by the file extension", ok,
           "fixed = extension in self.fixed_extensions" if ok else f"4th argument is `{args[3] if len(args) > 3 else '?'}`",
           py.nloc(ctor[0]))
    pi = py.func("Project.__init__")
    ok = "self.fixed_extensions = settings.fixed_extensions" in ast.unparse(pi)
    rep.ob("project takes fixed_extensions from the settings", ok, "", py.nloc(pi))
    sf = py.func("FortranSourceFile.__init__")
    rd = [c for c in py.walk_calls(sf) if call_name(c) == "FortranReader"]
    a = [ast.unparse(x) for x in rd[0].args] if rd else []
    ok = len(a) >= 7 and a[5] == "fixed" and a[6] == "settings.fixed_length_limit"
    rep.ob("source file passes fixed and fixed_length_limit to the reader", ok,
           "FortranReader(..., fixed, settings.fixed_length_limit, ...)" if ok else f"reader arguments {a[5:7]}",
           py.nloc(rd[0]) if rd else py.nloc(sf))
    fr = py.func("FortranReader.__init__")
    params = [x.arg for x in fr.args.args]
    ok = params[6:8] == ["fixed", "length_limit"]
    rep.ob("reader parameter order (fixed, length_limit)", ok, f"{params[6:8]}", py.nloc(fr))
    t = ast.unparse(fr)
    ok = re.search(r"if fixed:\s+self\.reader = convertToFree\(self\.reader, length_limit\)", t) is not None
    rep.ob("reader converts fixed form with the configured limit", ok,
           "convertToFree(self.reader, length_limit) under `if fixed`" if ok else
           "the length limit is not forwarded to convertToFree (or conversion is unconditional)", py.nloc(fr))
    ok = "self.fixed = fixed" in t and "self.length_limit = length_limit" in t
    rep.ob("reader remembers form and limit for included files", ok, "", py.nloc(fr))
    inc = py.func("FortranReader.include")
    rd = [c for c in py.walk_calls(inc) if call_name(c) == "FortranReader"]
    a = [ast.unparse(x) for x in rd[0].args] if rd else []
    ok = len(a) >= 7 and a[5] == "self.fixed" and a[6] == "self.length_limit"
    rep.ob("included files are read in the same form with the same limit", ok,
           "nested FortranReader(..., self.fixed, self.length_limit, ...)" if ok else f"nested reader gets {a[5:7]}",
           py.nloc(rd[0]) if rd else py.nloc(inc))
    po = py.func("ProjectSettings.__post_init__")
    ok = "if fixed_extension in self.extensions" in ast.unparse(po) and "raise ValueError" in ast.unparse(po)
    rep.ob("an extension cannot be both fixed and free form", ok, "", py.nloc(po))
    lx = py.func("FortranSourceFile.__init__")
    ok = "FortranFixedLexer() if self.fixed else FortranLexer()" in ast.unparse(lx)
    rep.ob("source listing uses the matching lexer", ok, "", py.nloc(lx), nontrivial=False)


RULES = [
    RuleSpec("C14.R1", r1_columns, "column table agreement", floor=14),
    RuleSpec("C14.R2", r2_form_selection, "form selection plumbing", floor=8),
]
