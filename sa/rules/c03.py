"""C03 — each doc comment lands on its entity, complete, once and in order (structural clauses)."""
from __future__ import annotations

import ast
import re
from typing import Dict, List, Optional, Set, Tuple

from ..core import AnalysisError, RuleSpec
from ..pymodel import PyModel, call_name
from .. import astq
from . import c15

EXPLANATION = (
    "R1: every constructor path reachable from a dispatch arm consumes the trailing doc block through "
    "read_docstring exactly once (FortranBase.__init__, line_to_variables, get_mod_procs, the last "
    "FortranFinalProc of a FINAL statement) and registers the entity for Markdown conversion once. R2 "
    "(marker-length agreement between sibling implementations): every place that tests or strips a doc "
    "marker derives its offsets from len(marker) and strips the marker whose regex matched "
    "(predoc_re<->predocmark, predoc_alt_re<->predocmark_alt, doc_alt_re<->docmark_alt); the "
    "alternate-block state is reset by a blank line as well as by code. R3: settings/metadata fields "
    "are used at their declared type (no str.join / iteration over a field declared str). R4: "
    "metadata is split from the body (meta_preprocessor) before the body is converted, and conversion "
    "receives the entity as context. R5: in the admonition pre-processor no list index is reused after "
    "an element at that index may have been deleted. Placement for every layout, and Markdown's own "
    "rendering, are not decided."
    ' R6: values computed once per declaration statement (attribute lists, dimension) are copied per variable, not shared. R7: a metadata continuation line needs an open key.'
    " Added after waves 6/7 - a summary replaces the full text only on paths on which the entity (or the owner of its page) is visible (template conditions evaluated propositionally); a skipped declaration consumes its documentation lines."
)
ASSUMPTIONS = ["doc markers are configurable strings of any length (settings schema: str)"]


def comment_group_keys(ctx) -> List[str]:
    """how the comment group of the doc-mark patterns can be referred to: its number and, if it has one, its quoted name"""
    py, rx = ctx.py, ctx.rx
    fn = py.func("reader._compile_docmark")
    call = [c for c in py.walk_calls(fn) if call_name(c) == "re.compile"]
    param = fn.args.args[0].arg
    for cand in ([call[0].args[0]] + astq.expand_locals(call[0].args[0], fn)) if call else []:
        p = py.eval_str(cand, {**py.module_env("reader"), param: "!"})
        if p is not None:
            fl = py.eval_flags(call[0].args[1] if len(call[0].args) > 1 else None)
            try:
                num, name = rx.group_starting_with(p, fl or 0, "!")
            except rx.Unsupported:
                break
            return [str(num)] + ([repr(name), '"' + name + '"'] if name else [])
    raise AnalysisError("_compile_docmark: the comment group of the pattern was not identified")


def r1_one_docstring_read(ctx, rep):
    py, cs = ctx.py, ctx.cascade
    for q, n_expected in (("FortranBase.__init__", 1), ("sourceform.line_to_variables", 1),
                          ("sourceform.get_mod_procs", 1), ("FortranFinalProc.__init__", 1)):
        fn = py.func(q)
        calls = [c for c in py.walk_calls(fn) if call_name(c) == "read_docstring"]
        ok = len(calls) == n_expected
        rep.ob(f"{q} reads the trailing doc block once", ok,
               f"{len(calls)} read_docstring call(s)" if ok else
               f"{len(calls)} read_docstring calls (expected {n_expected}): a declaration would consume or skip "
               f"its neighbour's documentation", py.nloc(fn))
        for c in calls:
            arg = ast.unparse(c.args[1]) if len(c.args) > 1 else ""
            ok = arg.endswith("settings.docmark")
            rep.ob(f"{q} reads with the configured docmark", ok, f"marker argument `{arg}`", py.nloc(c), nontrivial=False)
    rd = py.func("sourceform.read_docstring")
    # defaults of optional parameters take part in the evaluation (keep_marker=False style switches)
    defaults = {}
    pos = rd.args.args
    for a, d in zip(pos[len(pos) - len(rd.args.defaults):], rd.args.defaults):
        if isinstance(d, ast.Constant):
            defaults[a.arg] = d.value
    for a, d in zip(rd.args.kwonlyargs, rd.args.kw_defaults):
        if isinstance(d, ast.Constant):
            defaults[a.arg] = d.value
    # ... unless some call site sets the switch
    for _m, f2 in py.all_functions():
        for c in py.walk_calls(f2):
            if call_name(c).split(".")[-1] == "read_docstring":
                for k_ in astq.bind_args(c, rd):
                    defaults.pop(k_, None)
    marker_p = rd.args.args[1].arg
    # the full marker: the parameter itself (re-bound to "!" + marker) or a local built from it
    markers = {marker_p}
    for st in ast.walk(rd):
        if isinstance(st, ast.Assign) and len(st.targets) == 1 and isinstance(st.targets[0], ast.Name) and \
                any(isinstance(x, ast.Name) and x.id == marker_p for x in ast.walk(st.value)) and \
                any(isinstance(x, ast.Constant) and isinstance(x.value, str) and "!" in x.value for x in ast.walk(st.value)):
            markers.add(st.targets[0].id)

    def simplify(e: ast.AST) -> ast.AST:
        while isinstance(e, ast.IfExp):
            v = py.eval_const(e.test, defaults)
            if v is PyModel._UNKNOWN:
                break
            e = e.body if v else e.orelse
        return e
    slices = [n for n in ast.walk(rd) if isinstance(n, ast.Subscript) and isinstance(n.slice, ast.Slice) and n.slice.lower is not None
              and n.slice.upper is None]
    strip_ok = False
    for sl in slices:
        for x in astq.expand_locals(sl.slice.lower, rd):
            x = simplify(x)
            if isinstance(x, ast.Call) and call_name(x) == "len" and ast.unparse(x.args[0]) in markers:
                strip_ok = True
    removeprefix = any(isinstance(c, ast.Call) and isinstance(c.func, ast.Attribute) and c.func.attr == "removeprefix"
                       and ast.unparse(c.args[0]) in markers for c in ast.walk(rd))
    tests = any(isinstance(c, ast.Call) and isinstance(c.func, ast.Attribute) and c.func.attr == "startswith"
                and c.args and ast.unparse(c.args[0]) in markers for c in ast.walk(rd))
    back = any(isinstance(c, ast.Call) and isinstance(c.func, ast.Attribute) and c.func.attr == "pass_back" for c in ast.walk(rd))
    ok = (strip_ok or removeprefix) and tests and back
    rep.ob("read_docstring strips len(marker) and passes back the first non-doc line", ok,
           "" if ok else f"strip by marker length: {strip_ok or removeprefix}; startswith(marker) test: {tests}; pass_back: {back}", py.nloc(rd))
    # a declaration that is *skipped* (block-local) still owns the documentation lines that follow it: every `continue` inside
    # the declaration arm has to be preceded by something that consumes them, otherwise they fall through to the top of the
    # loop and are appended to the documentation of the enclosing unit
    va = cs.arm_by_regex("VARIABLE_RE")
    consumers = {"read_docstring", "line_to_variables"}
    nskip = 0
    for blk in ast.walk(ast.Module(body=va.body, type_ignores=[])):
        for field_ in ("body", "orelse"):
            stmts = getattr(blk, field_, None)
            if not isinstance(stmts, list):
                continue
            for i, st in enumerate(stmts):
                if isinstance(st, ast.Continue):
                    nskip += 1
                    before = [c for s_ in stmts[:i] for c in ast.walk(s_) if isinstance(c, ast.Call)]
                    ok = any(call_name(c).split(".")[-1] in consumers or any(
                        m in ast.unparse(c) for m in ("<inlined> line_to_variables", "<inlined> read_docstring")) for c in before)
                    rep.ob("a skipped declaration consumes its documentation", ok,
                           "the doc lines after the declaration are read before `continue`" if ok else
                           "the declaration arm `continue`s without reading the documentation that follows the declaration: the "
                           "`!! ...` lines of a variable declared inside a BLOCK construct become part of the enclosing "
                           "procedure's documentation", py.nloc(st))
    # FINAL arm: only the last finaliser gets the reader
    fa = cs.arm_by_regex("FINAL_RE")
    withsrc = [c for c in fa.constructs if c.cls == "FortranFinalProc" and len(c.node.args) >= 3]
    without = [c for c in fa.constructs if c.cls == "FortranFinalProc" and len(c.node.args) < 3]
    ok = len(withsrc) == 1 and len(without) == 1 and "procedures[-1]" in ast.unparse(withsrc[0].node.args[0])
    rep.ob("FINAL statement: the reader is handed to the last finaliser only", ok, "", py.nloc(fa.test))
    # every constructor that takes the reader goes through FortranBase.__init__ (one registration)
    fb = py.func("FortranBase.__init__")
    regs = [c for c in py.walk_calls(fb) if call_name(c) == "self.source_file._to_be_markdowned.append"]
    rep.ob("FortranBase.__init__ registers the entity for Markdown once", len(regs) == 1, "", py.nloc(fb))
    n = 0
    for cname, ci in py.classes.items():
        if ci.module != "sourceform" or cname.startswith("External"):
            continue
        init = ci.methods.get("__init__")
        if init is None or cname == "FortranBase":
            continue
        regs = [c for c in py.walk_calls(init) if "_to_be_markdowned.append" in (call_name(c) or "")]
        callsbase = any(call_name(c) in ("FortranBase.__init__", "super().__init__") for c in py.walk_calls(init))
        if not regs and not callsbase:
            continue
        n += 1
        ok = len(regs) + (1 if callsbase else 0) == 1 or cname in ("FortranContainer", "FortranSourceFile")
        rep.ob(f"{cname}.__init__ registers once", ok, f"direct={len(regs)} via-base={callsbase}", py.nloc(init), nontrivial=False)


def r2_marker_length(ctx, rep):
    py, cs = ctx.py, ctx.cascade
    # dispatch loop: doc line continuation test
    doc_if = None
    for s in cs.pre:
        if isinstance(s, ast.If) and "self.doc_list.append" in ast.unparse(s):
            doc_if = s
    if doc_if is None:
        raise AnalysisError("dispatch loop: doc-line branch not found")
    def const_bound(sl):
        return isinstance(sl, ast.Slice) and any(isinstance(b, ast.Constant) and isinstance(b.value, int) and b.value != 0
                                                 for b in (sl.lower, sl.upper) if b is not None)
    const_slices = [ast.unparse(n) for n in ast.walk(doc_if) if isinstance(n, ast.Subscript) and isinstance(n.value, ast.Name)
                    and n.value.id == cs.line_var and const_bound(n.slice)]
    uses_len = any(isinstance(n, ast.Call) and (call_name(n) == "len" or (isinstance(n.func, ast.Attribute) and n.func.attr in
                                                                          ("startswith", "removeprefix"))) for n in ast.walk(doc_if))
    ok = uses_len and not const_slices
    rep.ob("dispatch loop: doc-line test/strip uses the marker's length", ok,
           "offsets are derived from the configured marker" if ok else
           f"`{ast.unparse(doc_if.test)}` / `{const_slices}` use constant offsets: with a doc marker longer than one "
           f"character every doc line that follows a non-entity statement is not recognised (dropped and even "
           f"scanned as code)", py.nloc(doc_if))
    # reader substitution branches
    fn = py.func("FortranReader.__next__")
    init = py.func("FortranReader.__init__")
    # regex attribute -> marker attribute, from the constructor:  self.X_re = _compile_docmark(<marker>)
    pairs: Dict[str, str] = {}
    for n in ast.walk(init):
        if isinstance(n, ast.Assign) and isinstance(n.value, ast.Call) and call_name(n.value).endswith("_compile_docmark") and n.value.args:
            marker = ast.unparse(n.value.args[0])
            stored = [ast.unparse(t) for t, v in [(x.targets[0], x.value) for x in ast.walk(init) if isinstance(x, ast.Assign)]
                      if ast.unparse(v) == marker and ast.unparse(t).startswith("self.")]
            pairs[ast.unparse(n.targets[0])] = stored[0] if stored else f"self.{marker}"
    plain = [k for k, v in pairs.items() if v.endswith(".docmark")]
    if len(pairs) < 4 or not plain:
        raise AnalysisError(f"FortranReader.__init__: marker regex table not recognised ({pairs})")
    ev = astq.trace(fn, astq.class_method_resolver(py, "FortranReader", "reader"))
    marks = [(i, e) for i, e in enumerate(ev) if e.kind == "assign" and isinstance(e.value, ast.Call)
             and call_name(e.value).endswith("_match_docmark") and e.value.args]
    for j, (i, e) in enumerate(marks):
        rx = ast.unparse(e.value.args[0])
        if rx not in pairs or rx in plain:
            continue
        end = marks[j + 1][0] if j + 1 < len(marks) else len(ev)
        mvar = e.target
        lens: Set[str] = set()
        for x in ev[i + 1:end]:
            if not any(c == mvar for c in x.cond_texts()):
                continue
            if x.kind in ("assign", "return") and x.value is not None:
                lens |= set(re.findall(r"len\((self\.\w+)\)", x.text(x.value)))
        ok = lens == {pairs[rx]}
        rep.ob(f"reader: {rx} strips {pairs[rx]}", ok,
               "the matched marker is replaced by the plain doc marker using its own length" if ok else
               f"the branch for {rx} strips `{sorted(lens) or '?'}` (copy/paste slip): markers of different "
               f"length corrupt the doc text", py.nloc(e.node))
    cut = None
    for j, (i, e) in enumerate(marks):
        if ast.unparse(e.value.args[0]) in plain:
            end = marks[j + 1][0] if j + 1 < len(marks) else len(ev)
            seg = [x for x in ev[i + 1:end] if any(c == e.target for c in x.cond_texts())]
            # the comment group of the plain doc-mark pattern, by number or by name
            gkeys = comment_group_keys(ctx)
            def refers(text: str, what: str) -> bool:
                return any(f"{what}({k})" in text for k in gkeys) or (what == "group" and any(f"[{k}]" in text for k in gkeys))
            app = any(x.kind == "call" and call_name(x.node) == "self.docbuffer.append" and refers(x.text(), "group") for x in seg)
            cutl = any(x.kind == "assign" and x.target == "line" and any(
                refers(ast.unparse(v), "start") for v in [x.value] + astq.expand_locals(x.value, fn)) for x in seg)
            cut = app and cutl
    rep.ob("reader: plain doc comment is cut at the marker position", bool(cut), "", py.nloc(fn))
    # alternate-block state resets: `reading_alt` back to 0 on a blank line (or a non-comment line)
    def line_atom(x):
        """'blank' (nothing but white space on the line) / 'bang' (its first visible character is `!`), however spelled and
        through locals bound once (`stripped = line.strip()`)"""
        if not isinstance(x, (ast.Compare, ast.Call, ast.Name, ast.Attribute)):
            return None
        alts = astq.alternatives(x, fn)
        y = alts[0][0] if len(alts) == 1 else x
        t = ast.unparse(y)
        if t in ("line.strip()", "line.lstrip()", "len(line.strip())", "len(line.lstrip())"):
            return ("blank", False)
        m = re.fullmatch(r"len\(line\.l?strip\(\)\) (==|!=|>|<) (0|1)", t)
        if m:
            return ("blank", {("==", "0"): True, ("!=", "0"): False, (">", "0"): False, ("<", "1"): True}.get((m.group(1), m.group(2)), True))
        m = re.fullmatch(r"line\.l?strip\(\) (==|!=) ''", t)
        if m:
            return ("blank", m.group(1) == "==")
        m = re.fullmatch(r"line\.l?strip\(\)(?:\[0\]|\[:1\]|\[0:1\]) (==|!=) '!'", t)
        if m:
            return ("bang", m.group(1) == "==")
        if re.fullmatch(r"line\.l?strip\(\)\.startswith\('!'\)", t):
            return ("bang", True)
        return None
    resets = [e for e in ev if e.kind == "assign" and e.target == "self.reading_alt" and ast.unparse(e.value) == "0"]
    # on a blank line (whose first visible character is then not `!`) some reset runs
    # (other conditions - pending statements, open literals - leave the verdict open, hence `is not False`; an event that does
    # not depend on the shape of the line at all is not the reset that is looked for)
    ok = any(astq.event_fires(e, line_atom, {"blank": True, "bang": False}) is not False and
             astq.event_fires(e, line_atom, {"blank": False, "bang": True}) is False for e in resets)
    rep.ob("reader: a blank line ends an alternate (block) doc comment", ok,
           "`reading_alt` is reset on a blank line or a non-comment line" if ok else
           "`reading_alt` is no longer reset by a blank line: ordinary `!` comments after a `!*` block and a blank "
           "line are promoted to documentation of the previous entity", py.nloc(resets[0].node) if resets else py.nloc(fn))
    resets2 = [e for e in ev if e.kind == "assign" and e.target == "reading_predoc_alt" and ast.unparse(e.value) == "0"]
    # on a line of code (not blank, not a comment) the preceding-block state is reset
    ok = any(astq.event_fires(e, line_atom, {"blank": False, "bang": False}) is not False and
             astq.event_fires(e, line_atom, {"blank": False, "bang": True}) is False for e in resets2)
    rep.ob("reader: code ends an alternate preceding block", ok, "", py.nloc(resets2[0].node) if resets2 else py.nloc(fn))
    # GenericSource uses remove_prefixes
    gs = py.func("GenericSource.parse_file")
    ok = len([c for c in py.walk_calls(gs) if call_name(c).endswith("remove_prefixes")]) >= 3
    rep.ob("GenericSource strips markers by prefix, not by offset", ok, "", py.nloc(gs))
    # docmarks must differ pairwise (settings)
    pi = py.ifunc("ProjectSettings.__post_init__")      # canonical form: the check may live in a helper method
    pev = astq.trace(pi)
    ok = any(e.kind == "raise" and any("combinations" in ast.unparse(l.iter) and "docmark" in " ".join(
        ast.unparse(x) for x in astq.expand_locals(l.iter, pi)) for l in e.loops) for e in pev)
    rep.ob("settings reject equal doc markers", ok, "", py.nloc(pi))


def r3_declared_types(ctx, rep):
    py = ctx.py
    fields: Dict[str, str] = {}
    for cls in ("ProjectSettings", "EntitySettings"):
        for f, t in c15.schema(py, cls).items():
            fields.setdefault(f, t)
    str_fields = {f for f, t in fields.items() if t in ("str", "Optional[str]")}
    n = 0
    for mod, tree in py.modules.items():
        for c in ast.walk(tree):
            if isinstance(c, ast.Call) and isinstance(c.func, ast.Attribute) and c.func.attr == "join" and c.args:
                a = c.args[0]
                if isinstance(a, ast.Attribute) and a.attr in fields and \
                        re.search(r"(meta|settings|proj_data)$", ast.unparse(a.value)):
                    n += 1
                    ok = a.attr not in str_fields
                    rep.ob(f"{mod}: join over {ast.unparse(a)}", ok,
                           f"field is declared {fields[a.attr]}" if ok else
                           f"`{ast.unparse(c)[:60]}` joins the characters of `{a.attr}`, which the schema declares as "
                           f"{fields[a.attr]}: a `summary:` line in an entity's metadata is rendered one character "
                           f"per line", py.nloc(c))
            if isinstance(c, ast.For) and isinstance(c.iter, ast.Attribute) and c.iter.attr in str_fields and \
                    re.search(r"(meta|settings|proj_data)$", ast.unparse(c.iter.value)):
                n += 1
                rep.ob(f"{mod}: iteration over {ast.unparse(c.iter)}", False,
                       f"iterates the characters of a field declared {fields[c.iter.attr]}", py.nloc(c))
    if n == 0:
        rep.ob("no join/iteration over settings fields", True, "no site found", "ford/", nontrivial=False)


def r4_metadata_split(ctx, rep):
    py = ctx.py
    rm = py.func("FortranBase.read_metadata")
    mp = [n for n in ast.walk(rm) if isinstance(n, ast.Assign) and isinstance(n.value, ast.Call)
          and call_name(n.value).endswith("meta_preprocessor")]
    ok = bool(mp) and "self.doc_list" in astq.target_names(mp[0].targets[0]) and \
        [ast.unparse(a) for a in mp[0].value.args] == ["self.doc_list"] and \
        any(isinstance(c, ast.Call) and call_name(c) == "self.meta.update" for c in ast.walk(rm))
    rep.ob("read_metadata splits metadata from the body", ok, "", py.nloc(rm))
    ev = astq.trace(rm)
    guard = [e for e in ev if e.kind == "call" and call_name(e.node) == "self.doc_list.insert"
             and any("len(self.doc_list) == 1" in c and "':' in" in c for c in e.cond_texts())
             and (not mp or e.node.lineno < mp[0].lineno)]
    rep.ob("a one-line comment containing ':' is not mistaken for metadata", bool(guard), "", py.nloc(rm))
    mk = py.func("FortranBase.markdown")
    conv = [c for c in py.walk_calls(mk) if isinstance(c.func, ast.Attribute) and c.func.attr == "convert"]
    ok = bool(conv) and any(k.arg == "context" and ast.unparse(k.value) == "self" for k in conv[0].keywords) and \
        any("self.doc_list" in ast.unparse(a) and "dedent" in ast.unparse(a) for a in conv[0].args)
    rep.ob("markdown() converts the dedented body with the entity as context", ok, "", py.nloc(mk))
    # read_metadata runs in every constructor before conversion
    fb = py.func("FortranBase.__init__")
    seq = [call_name(c) for st in fb.body for c in py.walk_calls(st)]
    ok = "read_docstring" in seq and "self.read_metadata" in seq and seq.index("read_docstring") < seq.index("self.read_metadata")
    rep.ob("doc block is read before metadata is split", ok, "", py.nloc(fb))
    mp = py.func("utils.meta_preprocessor")
    rep.ob("meta_preprocessor present", True, "", py.nloc(mp), nontrivial=False)


def r6_shared_values_copied(ctx, rep):
    """line_to_variables reads the doc block and parses type/attributes once per statement and hands the
    same objects to every variable of the statement; the constructor must copy what is later mutated in
    place (doc_list by read_metadata/meta_preprocessor, proto by correlate, attribs by process_attribs)."""
    py = ctx.py
    ltv = py.func("sourceform.line_to_variables")
    loop = [n for n in ast.walk(ltv) if isinstance(n, ast.For) and any(
        isinstance(c, ast.Call) and call_name(c) == "FortranVariable" for c in ast.walk(n))]
    if not loop:
        raise AnalysisError("line_to_variables: per-declaration loop not found")
    call = [c for c in ast.walk(loop[0]) if isinstance(c, ast.Call) and call_name(c) == "FortranVariable"][0]
    init = py.func("FortranVariable.__init__")
    params = [a.arg for a in init.args.args][1:]
    passed = {params[i]: ast.unparse(a) for i, a in enumerate(call.args) if i < len(params)}
    for attr, param in (("doc_list", "doc"), ("proto", "proto"), ("attribs", "attribs")):
        asg = [n for n in ast.walk(init) if isinstance(n, ast.Assign) and ast.unparse(n.targets[0]) == f"self.{attr}"]
        if not asg:
            raise AnalysisError(f"FortranVariable.__init__: self.{attr} assignment not found")
        v = ast.unparse(asg[0].value)
        copied_in_ctor = bool(re.search(r"copy\.(copy|deepcopy)\(%s\)|list\(%s\)|%s\[:\]" % (param, param, param), v))
        copied_at_call = bool(re.search(r"copy\.(copy|deepcopy)\(|list\(", passed.get(param, "")))
        shared = param in passed and not re.search(r"^(None|''|\"\")$", passed[param])
        ok = copied_in_ctor or copied_at_call or not shared
        rep.ob(f"FortranVariable.{attr} is a private copy of the per-statement value", ok,
               f"self.{attr} = {v}" if ok else
               f"`self.{attr} = {v}` stores the object that line_to_variables passes to every variable of the "
               f"statement (`{passed.get(param)}`): the first variable's in-place processing (metadata stripping, type "
               f"resolution) changes what the other variables of the same declaration see", py.nloc(asg[0]))


def r7_meta_key_guard(ctx, rep):
    """a continuation line is only taken as metadata when a key is open, and the first line that is not metadata stays in the
    text - decided on the path conditions of the stores, whatever the loop looks like"""
    py = ctx.py
    mp = py.ifunc("utils.meta_preprocessor")
    ev = astq.trace(mp)
    tables = set()
    for r in astq.returns(mp):
        first = r.elts[0] if isinstance(r, ast.Tuple) and r.elts else r
        if isinstance(first, ast.Name):
            tables.add(first.id)
    stores = [e for e in ev if e.kind == "call" and isinstance(e.node.func, ast.Attribute) and e.node.func.attr in ("append", "extend")
              and isinstance(e.node.func.value, ast.Subscript) and isinstance(e.node.func.value.value, ast.Name)
              and e.node.func.value.value.id in tables]
    if not stores:
        raise AnalysisError("meta_preprocessor: no store into the metadata table found")

    def atom(t):
        if isinstance(t, ast.Name) and t.id == keyname:
            return ("open", True)
        if isinstance(t, ast.Compare) and len(t.ops) == 1 and isinstance(t.left, ast.Name) and t.left.id == keyname and \
                isinstance(t.comparators[0], ast.Constant) and t.comparators[0].value is None:
            return ("open", isinstance(t.ops[0], (ast.IsNot, ast.NotEq)))
        return None
    for n, e in enumerate(stores, 1):
        keyname = ast.unparse(e.node.func.value.slice)
        # set on this very path (`key = ...; meta[key].append(...)`) or tested
        i = ev.index(e)
        own = [(id(t), p) for t, p, _ in e.conds]
        set_here = any(x.kind == "assign" and x.target == keyname and [(id(t), p) for t, p, _ in x.conds] == own[:len(x.conds)]
                       and len(x.conds) >= 1 and x.conds[-1][0] is e.conds[len(x.conds) - 1][0] for x in ev[:i]
                       if len(x.conds) <= len(e.conds))
        guarded = set_here or astq.path_implies(e, atom, {"open": True}) is True
        rep.ob(f"meta_preprocessor: meta[key].append #{n} has an open key", guarded,
               "a continuation line is only taken when a metadata key is open" if guarded else
               "`meta[key].append(...)` can run while key is None: a doc comment whose first line is indented by four "
               "blanks (a code block) is swallowed as metadata of key None and dropped", py.nloc(e.node))
    # the first non-metadata line: put back (`lines.insert(0, line)`), or never removed (the block is cut off afterwards by
    # a counter that the "no metadata" exit does not advance)
    lines_p = mp.args.args[0].arg
    putback = [c for c in py.walk_calls(mp) if isinstance(c.func, ast.Attribute) and c.func.attr in ("insert", "appendleft")
               and c.args and ast.unparse(c.args[0]) in ("0",)]
    cut = [d for d in ast.walk(mp) if isinstance(d, ast.Delete) and any(
        isinstance(t, ast.Subscript) and isinstance(t.slice, ast.Slice) and isinstance(t.slice.upper, ast.Name) for t in d.targets)]
    ok = bool(putback) and any(isinstance(x, ast.Break) for x in ast.walk(mp))
    if not ok and cut:
        counter = cut[0].targets[0].slice.upper.id
        # every `break` that leaves the loop because the line is *not* metadata (i.e. not the blank/terminator exit) must not be
        # preceded, in its block, by an increment of the counter
        ok = True
        for blk in ast.walk(mp):
            for fld in ("body", "orelse"):
                stmts = getattr(blk, fld, None)
                if isinstance(stmts, list) and any(isinstance(x, ast.Break) for x in stmts):
                    k = next(i for i, x in enumerate(stmts) if isinstance(x, ast.Break))
                    incremented = any(isinstance(x, ast.AugAssign) and ast.unparse(x.target) == counter for x in stmts[:k])
                    is_terminator_exit = isinstance(blk, ast.If) and fld == "body" and any(
                        isinstance(c, ast.Call) and isinstance(c.func, ast.Attribute) and c.func.attr in ("match", "strip")
                        for c in ast.walk(blk.test)) and not any(isinstance(c, ast.NamedExpr) for c in ast.walk(blk.test))
                    if incremented and not is_terminator_exit:
                        ok = False
    rep.ob("meta_preprocessor: the first non-metadata line is put back", ok, "", py.nloc(mp))


def r5_index_after_delete(ctx, rep):
    py = ctx.py
    n = 0
    for mod, fn in py.all_functions():
        dels = [d for d in ast.walk(fn) if isinstance(d, ast.Delete) and any(
            isinstance(t, ast.Subscript) and isinstance(t.slice, ast.Name) for t in d.targets)]
        for d in dels:
            t = [x for x in d.targets if isinstance(x, ast.Subscript)][0]
            lst, idx = ast.unparse(t.value), t.slice.id
            uses_insert = any(isinstance(c, ast.Call) and call_name(c) == f"{lst}.insert" for c in ast.walk(fn))
            if not uses_insert and not any(isinstance(s, ast.Subscript) and isinstance(s.ctx, ast.Store)
                                           and isinstance(s.slice, ast.Slice) and ast.unparse(s.value) == lst
                                           for s in ast.walk(fn)):
                continue
            n += 1
            from .c18 import later_reachable
            bad = []
            for st in later_reachable(py, d, fn):
                if isinstance(st, ast.For) and isinstance(st.target, ast.Name) and st.target.id == idx:
                    break
                if isinstance(st, ast.Assign) and any(isinstance(x, ast.Name) and x.id == idx for x in st.targets):
                    break
                for x in ast.walk(st):
                    if isinstance(x, ast.Call) and call_name(x) == f"{lst}.insert" and \
                            any(isinstance(y, ast.Name) and y.id == idx for y in ast.walk(x.args[0])):
                        bad.append(x)
                    if isinstance(x, ast.Subscript) and ast.unparse(x.value) == lst and \
                            isinstance(x.ctx, ast.Store) and any(isinstance(y, ast.Name) and y.id == idx for y in ast.walk(x.slice)):
                        bad.append(x)
            rep.ob(f"{py.qualname(fn)}: `{idx}` not reused as insert position after `del {lst}[{idx}]`", not bad,
                   "insertions keyed by the index happen before the conditional deletion" if not bad else
                   f"`{ast.unparse(bad[0])[:70]}` uses `{idx}` after `del {lst}[{idx}]` may have removed that line: the "
                   f"text after an @end marker is inserted one line too late (words out of order)",
                   py.nloc(bad[0]) if bad else py.nloc(d))
    if n == 0:
        raise AnalysisError("admonition pre-processor: delete/insert pattern not found")


def r6_masking_cursor(ctx, rep):
    from . import c20
    c20.r4_cursor_progress(ctx, rep)


# entities that are shown by summary although no run-time test guards it, because their full text is rendered elsewhere
SUMMARY_ONLY_OK = {
    r"\.types\[\*\]\.variables\[\*\]$": "components of a derived type are documented in full on the type's own page",
}


def r8_summary_needs_a_page(ctx, rep):
    """Where a macro chooses between an entity's whole documentation (`X.doc`) and its first paragraph (`X|meta('summary')`,
    which ends in a "Read more" link to X's page), the summary branch may only be taken when X - or the entity on whose page X
    is documented in full - is `visible`, i.e. has that page.  Otherwise everything after the first paragraph of the comment
    appears nowhere.  The path conditions (with the callers' arguments substituted into the macros) are evaluated
    propositionally."""
    import types as _types
    from . import c09
    j = ctx.j
    n = 0
    seen = set()

    # `{% import 'macros.html' as macros %}` (without context): inside the imported macros only the environment's globals and
    # the globals handed to get_template() are defined; any other free name is Undefined, i.e. false
    out_py = ctx.py.modules["output"]
    glob = {"range", "dict", "lipsum", "cycler", "joiner", "namespace", "loop", "true", "false", "none", "True", "False", "None"}
    for x in ast.walk(out_py):
        if isinstance(x, ast.Subscript) and ast.unparse(x.value).endswith("env.globals") and isinstance(x.slice, ast.Constant):
            glob.add(x.slice.value)
        if isinstance(x, ast.keyword) and x.arg == "globals" and isinstance(x.value, ast.Call) and call_name(x.value) == "dict":
            glob |= {k.arg for k in x.value.keywords if k.arg}
    tdir = ctx.py.root / "ford" / "templates"
    bound_cache: Dict[Tuple[str, str], tuple] = {}

    def bound_in(tname: str, macro: str):
        if (tname, macro) not in bound_cache:
            src = (tdir / tname).read_text(encoding="utf-8")
            imported = not re.search(r"\{%-?\s*extends\b", src)
            m = re.search(r"\{%-?\s*macro\s+" + re.escape(macro) + r"\s*\(([^)]*)\)(.*?)\{%-?\s*endmacro", src, re.S)
            names: set = set()
            if m is None:
                imported = False          # not a macro of this file: nothing is known about its scope
            else:
                names |= {a.split("=")[0].strip() for a in m.group(1).split(",") if a.strip()}
                names |= set(re.findall(r"\{%-?\s*set\s+(\w+)", m.group(2)))
                for f in re.finditer(r"\{%-?\s*for\s+([\w,\s()]+?)\s+in\b", m.group(2)):
                    names |= set(re.findall(r"\w+", f.group(1)))
            bound_cache[(tname, macro)] = (names, imported)
        return bound_cache[(tname, macro)]

    def to_py(text: str, tname: str = "", macro: str = ""):
        try:
            e = ast.parse(text.replace("[*]", "._each"), mode="eval").body
        except SyntaxError:
            return ast.Name(id="unparsed_" + str(abs(hash(text)) % 10 ** 8), ctx=ast.Load())
        if tname:
            names, imported = bound_in(tname, macro)
            if imported:
                class _U(ast.NodeTransformer):
                    def visit_Attribute(self, node):
                        return node          # `x.attr`: x is an object, not a free flag
                    def visit_Call(self, node):
                        return node
                    def visit_Name(self, node):
                        if node.id not in names and node.id not in glob:
                            return ast.Constant(value=False)
                        return node
                e = _U().visit(e)
        return e

    def atom(t):
        if isinstance(t, ast.Attribute) and t.attr == "visible":
            return ("vis:" + ast.unparse(t.value), True)
        return None
    for tpl in c09.all_page_templates(ctx):
        outs, _ = j.expand(tpl)
        docs = {(o.sym[:-len(".doc")], tuple(o.macros)) for o in outs if o.sym.endswith(".doc")}
        for o in outs:
            if "<in-test>" in o.macros or not o.macros or "|meta('summary')" not in o.sym:
                continue
            target = o.sym.split("|meta('summary')")[0]
            if (target, tuple(o.macros)) not in docs:
                continue            # not a doc-or-summary choice
            key = (o.template, o.lineno, target, tuple(c[0] for c in o.conds), tuple(c[1] for c in o.conds))
            if key in seen:
                continue
            seen.add(key)
            n += 1
            ev = _types.SimpleNamespace(conds=[(to_py(c[0], o.template, o.macros[-1]), c[1], None) for c in o.conds])
            tpy = ast.unparse(to_py(target))
            owners = [tpy]
            while "." in owners[-1]:
                owners.append(owners[-1].rsplit(".", 1)[0])
            verdicts = [astq.path_implies(ev, atom, {"vis:" + v: True}) for v in owners]
            infeasible = all(v is None for v in verdicts)
            excused = next((why for pat, why in SUMMARY_ONLY_OK.items() if re.search(pat, target)), None)
            ok = infeasible or any(v is True for v in verdicts) or excused is not None
            rep.ob(f"page={tpl} summary of {target} in macro {o.macros[-1]}", ok,
                   ("branch not taken with these arguments" if infeasible else excused or "summary only for an entity with a page") if ok else
                   f"`{o.src}` (ford/templates/{o.template}:{o.lineno}) is rendered under {[c[0] for c in o.conds if c[1]][-2:]} "
                   f"without any test that {target} (or its owner) is visible: for an entity without a page of its own - a dummy "
                   f"procedure, an internal procedure - only the first paragraph of its comment is shown anywhere",
                   f"ford/templates/{o.template}:{o.lineno}", nontrivial=not infeasible)
    if n < 10:
        raise AnalysisError(f"only {n} doc-or-summary choices found in the templates")


def r9_own_members_kept(ctx, rep):
    """The members of an entity that carry documentation (its child lists, dummy arguments, result variable) are built from the
    entity's own source text, each with the comment that follows *its* declaration.  Where a later phase hands one entity the
    member objects of another (`proc.args = base.args`), the receiver must be of a kind that has no members of its own - a class
    whose construction sets that attribute to an empty constant - otherwise the comments written in its source are dropped and
    those of the other entity are shown in their place."""
    py = ctx.py
    from ..tables import children_lists
    lists, singles = children_lists(py)
    bearing = set(lists) | set(singles) | {"args", "retvar"}
    n = 0
    for mod, fn in py.all_functions():
        if mod != "sourceform" or fn.name == "__init__":
            continue
        parents = astq.parents_of(fn)
        for a in ast.walk(fn):
            if not (isinstance(a, ast.Assign) and len(a.targets) == 1 and isinstance(a.targets[0], ast.Attribute)
                    and isinstance(a.value, ast.Attribute) and a.targets[0].attr == a.value.attr and a.value.attr in bearing):
                continue
            recv, giver = ast.unparse(a.targets[0].value), ast.unparse(a.value.value)
            if recv == giver or py.enclosing_function(a) is not fn:
                continue
            n += 1
            attr = a.value.attr
            # the kinds the receiver is known to be on this path (nested test or early exit alike)
            ev = next((e for e in astq.trace(fn) if e.kind == "assign" and e.node is a), None)
            kinds = []
            tests = {ast.unparse(c): c for t, _p, _s in (ev.conds if ev else []) for c in ast.walk(t)
                     if isinstance(c, ast.Call) and call_name(c) == "isinstance" and len(c.args) == 2 and ast.unparse(c.args[0]) == recv}
            for txt, c in tests.items():
                def atom(x, txt=txt):
                    return ("is", True) if isinstance(x, ast.Call) and ast.unparse(x) == txt else None
                if astq.path_implies(ev, atom, {"is": True}) is True:
                    ks = c.args[1].elts if isinstance(c.args[1], ast.Tuple) else [c.args[1]]
                    kinds += [ast.unparse(k) for k in ks]

            def empty_by_construction(k: str) -> bool:
                for meth in ("_initialize", "__init__"):
                    r = py.resolve_method(k, meth) if k in py.classes else None
                    if r is None:
                        continue
                    vals = [v for _t, v in astq.assignments(r[1], f"self.{attr}") if v is not None]
                    if vals and all((isinstance(v, (ast.List, ast.Tuple, ast.Dict)) and not getattr(v, "elts", getattr(v, "keys", None)))
                                    or (isinstance(v, ast.Constant) and v.value is None) for v in vals):
                        return True
                return False
            ok = bool(kinds) and all(empty_by_construction(k) for k in kinds)
            rep.ob(f"{py.qualname(fn)}: `{ast.unparse(a)}`", ok,
                   f"only for {kinds}, which have no `{attr}` of their own" if ok else
                   f"`{recv}` receives the `{attr}` objects of `{giver}` " +
                   (f"also when it is one of {kinds}, whose own `{attr}` come from its source" if kinds else
                    "whatever its kind: an entity that declares its own members loses them") +
                   " - the comments written after its declarations are dropped and the other entity's are shown instead", py.nloc(a))
    if n == 0:
        raise AnalysisError("no hand-over of documented members between entities found (FortranCodeUnit.correlate: proc.args = base.args)")


def r10_every_item_is_converted(ctx, rep):
    """The Markdown pass turns every entity's comment into its `doc`.  An entity may already carry a provisional `doc` when the pass
    reaches it (an inherited component is given the placeholder "Inherited from [[base]]" during correlation), so nothing about
    the item may decide whether it is converted: in the loop of Project.markdown the call `item.markdown(md)` is unconditional."""
    py = ctx.py
    fn = py.func("Project.markdown")
    ev = [e for e in astq.trace(fn) if e.kind == "call" and isinstance(e.node.func, ast.Attribute) and e.node.func.attr == "markdown"
          and e.loops]
    if not ev:
        raise AnalysisError("Project.markdown: the per-item conversion call was not found")
    for e in ev:
        item = ast.unparse(e.node.func.value)
        loop = e.loops[-1]
        # conditions that were added inside the loop (those of the loop's surroundings are about the run, not about the item)
        outer = {id(t) for t, _p, _s in next((x.conds for x in astq.trace(fn) if x.kind == "loop" and x.node is loop), [])}
        inner = [(t, p_) for t, p_, _s in e.conds if id(t) not in outer]
        ok = not inner
        rep.ob(f"Project.markdown: `{ast.unparse(e.node)}` runs for every item", ok,
               "no test inside the loop decides whether an item is converted" if ok else
               f"`{item}.markdown(md)` runs only under {[ast.unparse(t) if p_ else 'not (' + ast.unparse(t) + ')' for t, p_ in inner]}: an entity "
               f"that already has a provisional `doc` (inherited components get a placeholder during correlation) keeps the placeholder - "
               f"its comment is never rendered", py.nloc(e.node))


def r11_comment_recogniser(ctx, rep):
    """what is a documentation comment is decided by the Fortran comment rule (shared with C02.R1)"""
    from . import c02
    c02.r1_comment_recogniser(ctx, rep)


RULES = [
    RuleSpec("C03.R1", r1_one_docstring_read, "one docstring read and one registration per declaration", floor=8),
    RuleSpec("C03.R2", r2_marker_length, "marker-length agreement between sibling implementations", floor=4),
    RuleSpec("C03.R3", r3_declared_types, "settings fields used at their declared type", floor=1),
    RuleSpec("C03.R4", r4_metadata_split, "metadata split before rendering", floor=2),
    RuleSpec("C03.R5", r5_index_after_delete, "no list index reused after deletion (admonitions)", floor=1),
    RuleSpec("C03.R6", r6_shared_values_copied, "per-statement values are copied per variable", floor=1),
    RuleSpec("C03.R7", r7_meta_key_guard, "metadata continuation needs an open key", floor=1),
    RuleSpec("C03.R9", r9_own_members_kept, "an entity keeps the documented members parsed from its own source", floor=2),
    RuleSpec("C03.R8", r8_summary_needs_a_page, "a summary replaces the full text only where the entity has a page", floor=10),
    RuleSpec("C03.R10", r10_every_item_is_converted, "the Markdown pass converts every item it visits", floor=1),
    RuleSpec("C03.R11", r11_comment_recogniser, "what is a documentation comment is decided by the Fortran comment rule (shared with C02.R1)", floor=1),
]
