"""C03 — each doc comment lands on its entity, complete, once and in order (structural clauses)."""
from __future__ import annotations

import ast
import re
from typing import Dict, List, Optional, Set, Tuple

from ..core import AnalysisError, RuleSpec
from ..pymodel import PyModel, call_name
from .. import astq
from . import c15

EXPLANATION = (
    "R1: every constructor path reachable from a dispatch arm consumes the trailing doc block through "
    "read_docstring exactly once (FortranBase.__init__, line_to_variables, get_mod_procs, the last "
    "FortranFinalProc of a FINAL statement) and registers the entity for Markdown conversion once. R2 "
    "(marker-length agreement between sibling implementations): every place that tests or strips a doc "
    "marker derives its offsets from len(marker) and strips the marker whose regex matched "
    "(predoc_re<->predocmark, predoc_alt_re<->predocmark_alt, doc_alt_re<->docmark_alt); the "
    "alternate-block state is reset by a blank line as well as by code. R3: settings/metadata fields "
    "are used at their declared type (no str.join / iteration over a field declared str). R4: "
    "metadata is split from the body (meta_preprocessor) before the body is converted, and conversion "
    "receives the entity as context. R5: in the admonition pre-processor no list index is reused after "
    "an element at that index may have been deleted. Placement for every layout, and Markdown's own "
    "rendering, are not decided."
    ' R6: values computed once per declaration statement (attribute lists, dimension) are copied per variable, not shared. R7: a metadata continuation line needs an open key.'
)
ASSUMPTIONS = ["doc markers are configurable strings of any length (settings schema: str)"]


def r1_one_docstring_read(ctx, rep):
    py, cs = ctx.py, ctx.cascade
    for q, n_expected in (("FortranBase.__init__", 1), ("sourceform.line_to_variables", 1),
                          ("sourceform.get_mod_procs", 1), ("FortranFinalProc.__init__", 1)):
        fn = py.func(q)
        calls = [c for c in py.walk_calls(fn) if call_name(c) == "read_docstring"]
        ok = len(calls) == n_expected
        rep.ob(f"{q} reads the trailing doc block once", ok,
               f"{len(calls)} read_docstring call(s)" if ok else
               f"{len(calls)} read_docstring calls (expected {n_expected}): a declaration would consume or skip "
               f"its neighbour's documentation", py.nloc(fn))
        for c in calls:
            arg = ast.unparse(c.args[1]) if len(c.args) > 1 else ""
            ok = arg.endswith("settings.docmark")
            rep.ob(f"{q} reads with the configured docmark", ok, f"marker argument `{arg}`", py.nloc(c), nontrivial=False)
    rd = py.func("sourceform.read_docstring")
    # defaults of optional parameters take part in the evaluation (keep_marker=False style switches)
    defaults = {}
    pos = rd.args.args
    for a, d in zip(pos[len(pos) - len(rd.args.defaults):], rd.args.defaults):
        if isinstance(d, ast.Constant):
            defaults[a.arg] = d.value
    marker_p = rd.args.args[1].arg

    def simplify(e: ast.AST) -> ast.AST:
        while isinstance(e, ast.IfExp):
            v = py.eval_const(e.test, defaults)
            if v is PyModel._UNKNOWN:
                break
            e = e.body if v else e.orelse
        return e
    slices = [n for n in ast.walk(rd) if isinstance(n, ast.Subscript) and isinstance(n.slice, ast.Slice) and n.slice.lower is not None
              and n.slice.upper is None]
    strip_ok = False
    for sl in slices:
        for x in astq.expand_locals(sl.slice.lower, rd):
            x = simplify(x)
            if isinstance(x, ast.Call) and call_name(x) == "len" and ast.unparse(x.args[0]) == marker_p:
                strip_ok = True
    removeprefix = any(isinstance(c, ast.Call) and isinstance(c.func, ast.Attribute) and c.func.attr == "removeprefix"
                       and ast.unparse(c.args[0]) == marker_p for c in ast.walk(rd))
    tests = any(isinstance(c, ast.Call) and isinstance(c.func, ast.Attribute) and c.func.attr == "startswith"
                and c.args and ast.unparse(c.args[0]) == marker_p for c in ast.walk(rd))
    back = any(isinstance(c, ast.Call) and isinstance(c.func, ast.Attribute) and c.func.attr == "pass_back" for c in ast.walk(rd))
    ok = (strip_ok or removeprefix) and tests and back
    rep.ob("read_docstring strips len(marker) and passes back the first non-doc line", ok,
           "" if ok else f"strip by marker length: {strip_ok or removeprefix}; startswith(marker) test: {tests}; pass_back: {back}", py.nloc(rd))
    # FINAL arm: only the last finaliser gets the reader
    fa = cs.arm_by_regex("FINAL_RE")
    withsrc = [c for c in fa.constructs if c.cls == "FortranFinalProc" and len(c.node.args) >= 3]
    without = [c for c in fa.constructs if c.cls == "FortranFinalProc" and len(c.node.args) < 3]
    ok = len(withsrc) == 1 and len(without) == 1 and "procedures[-1]" in ast.unparse(withsrc[0].node.args[0])
    rep.ob("FINAL statement: the reader is handed to the last finaliser only", ok, "", py.nloc(fa.test))
    # every constructor that takes the reader goes through FortranBase.__init__ (one registration)
    fb = py.func("FortranBase.__init__")
    regs = [c for c in py.walk_calls(fb) if call_name(c) == "self.source_file._to_be_markdowned.append"]
    rep.ob("FortranBase.__init__ registers the entity for Markdown once", len(regs) == 1, "", py.nloc(fb))
    n = 0
    for cname, ci in py.classes.items():
        if ci.module != "sourceform" or cname.startswith("External"):
            continue
        init = ci.methods.get("__init__")
        if init is None or cname == "FortranBase":
            continue
        regs = [c for c in py.walk_calls(init) if "_to_be_markdowned.append" in (call_name(c) or "")]
        callsbase = any(call_name(c) in ("FortranBase.__init__", "super().__init__") for c in py.walk_calls(init))
        if not regs and not callsbase:
            continue
        n += 1
        ok = len(regs) + (1 if callsbase else 0) == 1 or cname in ("FortranContainer", "FortranSourceFile")
        rep.ob(f"{cname}.__init__ registers once", ok, f"direct={len(regs)} via-base={callsbase}", py.nloc(init), nontrivial=False)


def r2_marker_length(ctx, rep):
    py, cs = ctx.py, ctx.cascade
    # dispatch loop: doc line continuation test
    doc_if = None
    for s in cs.pre:
        if isinstance(s, ast.If) and "self.doc_list.append" in ast.unparse(s):
            doc_if = s
    if doc_if is None:
        raise AnalysisError("dispatch loop: doc-line branch not found")
    def const_bound(sl):
        return isinstance(sl, ast.Slice) and any(isinstance(b, ast.Constant) and isinstance(b.value, int) and b.value != 0
                                                 for b in (sl.lower, sl.upper) if b is not None)
    const_slices = [ast.unparse(n) for n in ast.walk(doc_if) if isinstance(n, ast.Subscript) and isinstance(n.value, ast.Name)
                    and n.value.id == cs.line_var and const_bound(n.slice)]
    uses_len = any(isinstance(n, ast.Call) and (call_name(n) == "len" or (isinstance(n.func, ast.Attribute) and n.func.attr in
                                                                          ("startswith", "removeprefix"))) for n in ast.walk(doc_if))
    ok = uses_len and not const_slices
    rep.ob("dispatch loop: doc-line test/strip uses the marker's length", ok,
           "offsets are derived from the configured marker" if ok else
           f"`{ast.unparse(doc_if.test)}` / `{const_slices}` use constant offsets: with a doc marker longer than one "
           f"character every doc line that follows a non-entity statement is not recognised (dropped and even "
           f"scanned as code)", py.nloc(doc_if))
    # reader substitution branches
    fn = py.func("FortranReader.__next__")
    init = py.func("FortranReader.__init__")
    # regex attribute -> marker attribute, from the constructor:  self.X_re = _compile_docmark(<marker>)
    pairs: Dict[str, str] = {}
    for n in ast.walk(init):
        if isinstance(n, ast.Assign) and isinstance(n.value, ast.Call) and call_name(n.value).endswith("_compile_docmark") and n.value.args:
            marker = ast.unparse(n.value.args[0])
            stored = [ast.unparse(t) for t, v in [(x.targets[0], x.value) for x in ast.walk(init) if isinstance(x, ast.Assign)]
                      if ast.unparse(v) == marker and ast.unparse(t).startswith("self.")]
            pairs[ast.unparse(n.targets[0])] = stored[0] if stored else f"self.{marker}"
    plain = [k for k, v in pairs.items() if v.endswith(".docmark")]
    if len(pairs) < 4 or not plain:
        raise AnalysisError(f"FortranReader.__init__: marker regex table not recognised ({pairs})")
    ev = astq.trace(fn, astq.class_method_resolver(py, "FortranReader", "reader"))
    marks = [(i, e) for i, e in enumerate(ev) if e.kind == "assign" and isinstance(e.value, ast.Call)
             and call_name(e.value).endswith("_match_docmark") and e.value.args]
    for j, (i, e) in enumerate(marks):
        rx = ast.unparse(e.value.args[0])
        if rx not in pairs or rx in plain:
            continue
        end = marks[j + 1][0] if j + 1 < len(marks) else len(ev)
        mvar = e.target
        lens: Set[str] = set()
        for x in ev[i + 1:end]:
            if not any(c == mvar for c in x.cond_texts()):
                continue
            if x.kind in ("assign", "return") and x.value is not None:
                lens |= set(re.findall(r"len\((self\.\w+)\)", x.text(x.value)))
        ok = lens == {pairs[rx]}
        rep.ob(f"reader: {rx} strips {pairs[rx]}", ok,
               "the matched marker is replaced by the plain doc marker using its own length" if ok else
               f"the branch for {rx} strips `{sorted(lens) or '?'}` (copy/paste slip): markers of different "
               f"length corrupt the doc text", py.nloc(e.node))
    cut = None
    for j, (i, e) in enumerate(marks):
        if ast.unparse(e.value.args[0]) in plain:
            end = marks[j + 1][0] if j + 1 < len(marks) else len(ev)
            seg = [x for x in ev[i + 1:end] if any(c == e.target for c in x.cond_texts())]
            app = any(x.kind == "call" and call_name(x.node) == "self.docbuffer.append" and "group(4)" in x.text() for x in seg)
            cutl = any(x.kind == "assign" and x.target == "line" and "start(4)" in x.text(x.value) for x in seg)
            cut = app and cutl
    rep.ob("reader: plain doc comment is cut at the marker position", bool(cut), "", py.nloc(fn))
    # alternate-block state resets: `reading_alt` back to 0 on a blank line (or a non-comment line)
    def blank_test(c: str) -> bool:
        return re.search(r"len\(line\.strip\(\)\) == 0|not line\.strip\(\)|line\.strip\(\) == ''", c) is not None
    resets = [e for e in ev if e.kind == "assign" and e.target == "self.reading_alt" and ast.unparse(e.value) == "0"]
    ok = any(any(blank_test(c) and not c.startswith("not (") for c in e.cond_texts()) for e in resets)
    rep.ob("reader: a blank line ends an alternate (block) doc comment", ok,
           "`reading_alt` is reset on a blank line or a non-comment line" if ok else
           "`reading_alt` is no longer reset by a blank line: ordinary `!` comments after a `!*` block and a blank "
           "line are promoted to documentation of the previous entity", py.nloc(resets[0].node) if resets else py.nloc(fn))
    resets2 = [e for e in ev if e.kind == "assign" and e.target == "reading_predoc_alt" and ast.unparse(e.value) == "0"]
    ok = any(any(re.search(r"!= '!'|not .*startswith\('!'\)", c) for c in e.cond_texts()) for e in resets2)
    rep.ob("reader: code ends an alternate preceding block", ok, "", py.nloc(resets2[0].node) if resets2 else py.nloc(fn))
    # GenericSource uses remove_prefixes
    gs = py.func("GenericSource.parse_file")
    ok = len([c for c in py.walk_calls(gs) if call_name(c).endswith("remove_prefixes")]) >= 3
    rep.ob("GenericSource strips markers by prefix, not by offset", ok, "", py.nloc(gs))
    # docmarks must differ pairwise (settings)
    pi = py.ifunc("ProjectSettings.__post_init__")      # canonical form: the check may live in a helper method
    pev = astq.trace(pi)
    ok = any(e.kind == "raise" and any("combinations" in ast.unparse(l.iter) and "docmark" in " ".join(
        ast.unparse(x) for x in astq.expand_locals(l.iter, pi)) for l in e.loops) for e in pev)
    rep.ob("settings reject equal doc markers", ok, "", py.nloc(pi))


def r3_declared_types(ctx, rep):
    py = ctx.py
    fields: Dict[str, str] = {}
    for cls in ("ProjectSettings", "EntitySettings"):
        for f, t in c15.schema(py, cls).items():
            fields.setdefault(f, t)
    str_fields = {f for f, t in fields.items() if t in ("str", "Optional[str]")}
    n = 0
    for mod, tree in py.modules.items():
        for c in ast.walk(tree):
            if isinstance(c, ast.Call) and isinstance(c.func, ast.Attribute) and c.func.attr == "join" and c.args:
                a = c.args[0]
                if isinstance(a, ast.Attribute) and a.attr in fields and \
                        re.search(r"(meta|settings|proj_data)$", ast.unparse(a.value)):
                    n += 1
                    ok = a.attr not in str_fields
                    rep.ob(f"{mod}: join over {ast.unparse(a)}", ok,
                           f"field is declared {fields[a.attr]}" if ok else
                           f"`{ast.unparse(c)[:60]}` joins the characters of `{a.attr}`, which the schema declares as "
                           f"{fields[a.attr]}: a `summary:` line in an entity's metadata is rendered one character "
                           f"per line", py.nloc(c))
            if isinstance(c, ast.For) and isinstance(c.iter, ast.Attribute) and c.iter.attr in str_fields and \
                    re.search(r"(meta|settings|proj_data)$", ast.unparse(c.iter.value)):
                n += 1
                rep.ob(f"{mod}: iteration over {ast.unparse(c.iter)}", False,
                       f"iterates the characters of a field declared {fields[c.iter.attr]}", py.nloc(c))
    if n == 0:
        rep.ob("no join/iteration over settings fields", True, "no site found", "ford/", nontrivial=False)


def r4_metadata_split(ctx, rep):
    py = ctx.py
    rm = py.func("FortranBase.read_metadata")
    mp = [n for n in ast.walk(rm) if isinstance(n, ast.Assign) and isinstance(n.value, ast.Call)
          and call_name(n.value).endswith("meta_preprocessor")]
    ok = bool(mp) and "self.doc_list" in astq.target_names(mp[0].targets[0]) and \
        [ast.unparse(a) for a in mp[0].value.args] == ["self.doc_list"] and \
        any(isinstance(c, ast.Call) and call_name(c) == "self.meta.update" for c in ast.walk(rm))
    rep.ob("read_metadata splits metadata from the body", ok, "", py.nloc(rm))
    ev = astq.trace(rm)
    guard = [e for e in ev if e.kind == "call" and call_name(e.node) == "self.doc_list.insert"
             and any("len(self.doc_list) == 1" in c and "':' in" in c for c in e.cond_texts())
             and (not mp or e.node.lineno < mp[0].lineno)]
    rep.ob("a one-line comment containing ':' is not mistaken for metadata", bool(guard), "", py.nloc(rm))
    mk = py.func("FortranBase.markdown")
    conv = [c for c in py.walk_calls(mk) if isinstance(c.func, ast.Attribute) and c.func.attr == "convert"]
    ok = bool(conv) and any(k.arg == "context" and ast.unparse(k.value) == "self" for k in conv[0].keywords) and \
        any("self.doc_list" in ast.unparse(a) and "dedent" in ast.unparse(a) for a in conv[0].args)
    rep.ob("markdown() converts the dedented body with the entity as context", ok, "", py.nloc(mk))
    # read_metadata runs in every constructor before conversion
    fb = py.func("FortranBase.__init__")
    seq = [call_name(c) for st in fb.body for c in py.walk_calls(st)]
    ok = "read_docstring" in seq and "self.read_metadata" in seq and seq.index("read_docstring") < seq.index("self.read_metadata")
    rep.ob("doc block is read before metadata is split", ok, "", py.nloc(fb))
    mp = py.func("utils.meta_preprocessor")
    rep.ob("meta_preprocessor present", True, "", py.nloc(mp), nontrivial=False)


def r6_shared_values_copied(ctx, rep):
    """line_to_variables reads the doc block and parses type/attributes once per statement and hands the
    same objects to every variable of the statement; the constructor must copy what is later mutated in
    place (doc_list by read_metadata/meta_preprocessor, proto by correlate, attribs by process_attribs)."""
    py = ctx.py
    ltv = py.func("sourceform.line_to_variables")
    loop = [n for n in ast.walk(ltv) if isinstance(n, ast.For) and any(
        isinstance(c, ast.Call) and call_name(c) == "FortranVariable" for c in ast.walk(n))]
    if not loop:
        raise AnalysisError("line_to_variables: per-declaration loop not found")
    call = [c for c in ast.walk(loop[0]) if isinstance(c, ast.Call) and call_name(c) == "FortranVariable"][0]
    init = py.func("FortranVariable.__init__")
    params = [a.arg for a in init.args.args][1:]
    passed = {params[i]: ast.unparse(a) for i, a in enumerate(call.args) if i < len(params)}
    for attr, param in (("doc_list", "doc"), ("proto", "proto"), ("attribs", "attribs")):
        asg = [n for n in ast.walk(init) if isinstance(n, ast.Assign) and ast.unparse(n.targets[0]) == f"self.{attr}"]
        if not asg:
            raise AnalysisError(f"FortranVariable.__init__: self.{attr} assignment not found")
        v = ast.unparse(asg[0].value)
        copied_in_ctor = bool(re.search(r"copy\.(copy|deepcopy)\(%s\)|list\(%s\)|%s\[:\]" % (param, param, param), v))
        copied_at_call = bool(re.search(r"copy\.(copy|deepcopy)\(|list\(", passed.get(param, "")))
        shared = param in passed and not re.search(r"^(None|''|\"\")$", passed[param])
        ok = copied_in_ctor or copied_at_call or not shared
        rep.ob(f"FortranVariable.{attr} is a private copy of the per-statement value", ok,
               f"self.{attr} = {v}" if ok else
               f"`self.{attr} = {v}` stores the object that line_to_variables passes to every variable of the "
               f"statement (`{passed.get(param)}`): the first variable's in-place processing (metadata stripping, type "
               f"resolution) changes what the other variables of the same declaration see", py.nloc(asg[0]))


def r7_meta_key_guard(ctx, rep):
    py = ctx.py
    mp = py.func("utils.meta_preprocessor")
    loop = [n for n in mp.body if isinstance(n, ast.While)]
    if not loop:
        raise AnalysisError("meta_preprocessor: loop not found")
    n = 0
    for c in ast.walk(loop[0]):
        if isinstance(c, ast.Call) and ast.unparse(c.func) == "meta[key].append":
            n += 1
            # dominated by an assignment to key in the same block, or guarded by a test of key
            p = c
            guarded = False
            while p is not loop[0]:
                child = p
                p = py.parents[p]
                if isinstance(p, ast.If) and child in p.body:
                    t = ast.unparse(p.test)
                    if re.search(r"\band key\b|\bkey is not None\b|^key$|\bkey and\b", t):
                        guarded = True
                    blk = p.body
                    idx = blk.index(child) if child in blk else 0
                    if any(isinstance(s, ast.Assign) and ast.unparse(s.targets[0]) == "key" for s in blk[:idx]):
                        guarded = True
            rep.ob(f"meta_preprocessor: meta[key].append #{n} has an open key", guarded,
                   "a continuation line is only taken when a metadata key is open" if guarded else
                   "`meta[key].append(...)` can run while key is None: a doc comment whose first line is indented by four "
                   "blanks (a code block) is swallowed as metadata of key None and dropped", py.nloc(c))
    putback = [c for c in py.walk_calls(loop[0]) if isinstance(c.func, ast.Attribute) and c.func.attr in ("insert", "appendleft")
               and c.args and ast.unparse(c.args[0]) in ("0",)]
    ok = bool(putback) and any(isinstance(x, ast.Break) for x in ast.walk(loop[0]))
    rep.ob("meta_preprocessor: the first non-metadata line is put back", ok, "", py.nloc(loop[0]))
    if n == 0:
        raise AnalysisError("meta_preprocessor: no meta[key].append found")


def r5_index_after_delete(ctx, rep):
    py = ctx.py
    n = 0
    for mod, fn in py.all_functions():
        dels = [d for d in ast.walk(fn) if isinstance(d, ast.Delete) and any(
            isinstance(t, ast.Subscript) and isinstance(t.slice, ast.Name) for t in d.targets)]
        for d in dels:
            t = [x for x in d.targets if isinstance(x, ast.Subscript)][0]
            lst, idx = ast.unparse(t.value), t.slice.id
            uses_insert = any(isinstance(c, ast.Call) and call_name(c) == f"{lst}.insert" for c in ast.walk(fn))
            if not uses_insert and not any(isinstance(s, ast.Subscript) and isinstance(s.ctx, ast.Store)
                                           and isinstance(s.slice, ast.Slice) and ast.unparse(s.value) == lst
                                           for s in ast.walk(fn)):
                continue
            n += 1
            from .c18 import later_reachable
            bad = []
            for st in later_reachable(py, d, fn):
                if isinstance(st, ast.For) and isinstance(st.target, ast.Name) and st.target.id == idx:
                    break
                if isinstance(st, ast.Assign) and any(isinstance(x, ast.Name) and x.id == idx for x in st.targets):
                    break
                for x in ast.walk(st):
                    if isinstance(x, ast.Call) and call_name(x) == f"{lst}.insert" and \
                            any(isinstance(y, ast.Name) and y.id == idx for y in ast.walk(x.args[0])):
                        bad.append(x)
                    if isinstance(x, ast.Subscript) and ast.unparse(x.value) == lst and \
                            isinstance(x.ctx, ast.Store) and any(isinstance(y, ast.Name) and y.id == idx for y in ast.walk(x.slice)):
                        bad.append(x)
            rep.ob(f"{py.qualname(fn)}: `{idx}` not reused as insert position after `del {lst}[{idx}]`", not bad,
                   "insertions keyed by the index happen before the conditional deletion" if not bad else
                   f"`{ast.unparse(bad[0])[:70]}` uses `{idx}` after `del {lst}[{idx}]` may have removed that line: the "
                   f"text after an @end marker is inserted one line too late (words out of order)",
                   py.nloc(bad[0]) if bad else py.nloc(d))
    if n == 0:
        raise AnalysisError("admonition pre-processor: delete/insert pattern not found")


def r6_masking_cursor(ctx, rep):
    from . import c20
    c20.r4_cursor_progress(ctx, rep)


RULES = [
    RuleSpec("C03.R1", r1_one_docstring_read, "one docstring read and one registration per declaration", floor=8),
    RuleSpec("C03.R2", r2_marker_length, "marker-length agreement between sibling implementations", floor=4),
    RuleSpec("C03.R3", r3_declared_types, "settings fields used at their declared type", floor=1),
    RuleSpec("C03.R4", r4_metadata_split, "metadata split before rendering", floor=2),
    RuleSpec("C03.R5", r5_index_after_delete, "no list index reused after deletion (admonitions)", floor=1),
    RuleSpec("C03.R6", r6_shared_values_copied, "per-statement values are copied per variable", floor=1),
    RuleSpec("C03.R7", r7_meta_key_guard, "metadata continuation needs an open key", floor=1),
]
