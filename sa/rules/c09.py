"""C09 — every internal link resolves, and the output is relocatable (structural clauses)."""
from __future__ import annotations

import ast
import itertools
import re
from typing import Dict, List, Optional, Set, Tuple

from jinja2 import nodes as N

from ..core import AnalysisError, RuleSpec
from ..jmodel import JModel, sym, string_alternatives
from ..pymodel import call_name
from .. import astq
from .. import tables

EXPLANATION = (
    "Static cross-artifact agreement between ford/output.py and the Jinja templates (parsed, never "
    "rendered). R1: for every literal lists/X.html link the conjunction of enclosing template guards "
    "implies the Python condition under which that ListPage is created (both normalised into a small "
    "predicate language and decided exactly by enumerating collection sizes 0..c+1 and option "
    "values); same for project.X[k] singular links. R2: every sidebar link <own page>#item.anchor "
    "has, on every page template whose payload class can own that collection, an element with "
    "id=item.anchor for the same objects after macro inlining. R3: every output whose abstract type "
    "is entity / list of entities / link-bearing string passes the relurl filter. R4: literal ../ "
    "links only in templates rendered at depth 1. R5: directory names agree between get_dir, "
    "writeout and DocPage. R6: graph node URLs only for visible entities. Decides these structural "
    "necessary conditions only, not the existence of each concrete target file."
    " R7: every entity whose get_url() names its own page is gathered into a project list from which pages are written (including namelists of every code unit, after pruning). R8: the anchors [[owner:item]] and entity links point to are emitted unconditionally on the owner's page. R1 and R5 work on the macro-expanded templates and on symbolically evaluated string compositions, not on literal text."
    " Added after waves 6/7 - the page's absolute file name is never printed; members hidden by the display filter are not left visible; cached links are keyed by the page depth they depend on."
)
ASSUMPTIONS = [
    "jinja2's own parser is used to read templates (nothing is rendered)",
    "user-supplied html_template_dir overrides are out of scope",
    "tables of link-bearing attributes in sa/tables.py are reviewed constants cross-checked against assignments found in ford/sourceform.py",
]


# ------------------------------------------------------------------------------ predicate language
class P:
    """tiny expression trees: ('len',X) ('opt',y) ('const',v) ('add',a,b) ('cmp',op,a,b)
    ('and',a,b) ('or',a,b) ('not',a) ('truth',expr)"""


def p_eval(e, sizes: Dict[str, int], opts: Dict[str, bool]):
    k = e[0]
    if k == "len":
        return sizes[e[1]]
    if k == "opt":
        return opts[e[1]]
    if k == "const":
        return e[1]
    if k == "add":
        return p_eval(e[1], sizes, opts) + p_eval(e[2], sizes, opts)
    if k == "cmp":
        a, b = p_eval(e[2], sizes, opts), p_eval(e[3], sizes, opts)
        return {">": a > b, ">=": a >= b, "<": a < b, "<=": a <= b, "==": a == b, "!=": a != b}[e[1]]
    if k == "and":
        return bool(p_eval(e[1], sizes, opts)) and bool(p_eval(e[2], sizes, opts))
    if k == "or":
        return bool(p_eval(e[1], sizes, opts)) or bool(p_eval(e[2], sizes, opts))
    if k == "not":
        return not bool(p_eval(e[1], sizes, opts))
    if k == "truth":
        return bool(p_eval(e[1], sizes, opts))
    raise AnalysisError(f"predicate form {k}")


def p_vars(e, sizes: Set[str], opts: Set[str], consts: Set[int]):
    if e[0] == "len":
        sizes.add(e[1])
    elif e[0] == "opt":
        opts.add(e[1])
    elif e[0] == "const":
        if isinstance(e[1], int):
            consts.add(e[1])
    else:
        for x in e[1:]:
            if isinstance(x, tuple):
                p_vars(x, sizes, opts, consts)


def p_show(e) -> str:
    k = e[0]
    if k == "len":
        return f"n({e[1]})"
    if k == "opt":
        return e[1]
    if k == "const":
        return repr(e[1])
    if k == "add":
        return f"({p_show(e[1])}+{p_show(e[2])})"
    if k == "cmp":
        return f"{p_show(e[2])}{e[1]}{p_show(e[3])}"
    if k in ("and", "or"):
        return f"({p_show(e[1])} {k} {p_show(e[2])})"
    if k == "not":
        return f"not {p_show(e[1])}"
    if k == "truth":
        return f"bool({p_show(e[1])})"
    return str(e)


_PYOPS = {ast.Gt: ">", ast.GtE: ">=", ast.Lt: "<", ast.LtE: "<=", ast.Eq: "==", ast.NotEq: "!="}


_PRED_LOCALS: Dict[str, ast.AST] = {}     # single-assignment locals of the function being read (set by the extractors)


def py_pred(n: ast.AST, project_names=("project",), settings_names=("settings",)):
    if isinstance(n, ast.Name) and n.id in _PRED_LOCALS:
        return py_pred(_PRED_LOCALS[n.id], project_names, settings_names)
    if isinstance(n, ast.Call) and isinstance(n.func, ast.Name) and n.func.id == "bool" and len(n.args) == 1:
        return py_pred(n.args[0], project_names, settings_names)
    if isinstance(n, ast.Call) and isinstance(n.func, ast.Name) and n.func.id == "len" and len(n.args) == 1:
        a = n.args[0]
        if isinstance(a, ast.Attribute) and isinstance(a.value, ast.Name) and a.value.id in project_names:
            return ("len", a.attr)
    if isinstance(n, ast.Attribute) and isinstance(n.value, ast.Name):
        if n.value.id in project_names:
            return ("cmp", ">", ("len", n.attr), ("const", 0))
        if n.value.id in settings_names:
            return ("opt", n.attr)
    if isinstance(n, ast.Constant) and isinstance(n.value, (int, bool)):
        return ("const", n.value)
    if isinstance(n, ast.BinOp) and isinstance(n.op, ast.Add):
        return ("add", py_pred(n.left), py_pred(n.right))
    if isinstance(n, ast.Compare) and len(n.ops) == 1 and type(n.ops[0]) in _PYOPS:
        return ("cmp", _PYOPS[type(n.ops[0])], py_pred(n.left), py_pred(n.comparators[0]))
    if isinstance(n, ast.BoolOp):
        k = "and" if isinstance(n.op, ast.And) else "or"
        out = py_pred(n.values[0])
        for v in n.values[1:]:
            out = (k, out, py_pred(v))
        return out
    if isinstance(n, ast.UnaryOp) and isinstance(n.op, ast.Not):
        return ("not", py_pred(n.operand))
    raise AnalysisError(f"python guard not understood: {ast.unparse(n)}")


_JOPS = {"gt": ">", "gteq": ">=", "lt": "<", "lteq": "<=", "eq": "==", "ne": "!="}


_J_DEFS: Dict[str, N.Node] = {}      # {% set name = expr %} definitions visible at the guard being read (set by guard_of)


def j_pred(n: N.Node, tests: Dict[str, Tuple[str, int]], numeric=False):
    """Jinja test -> predicate; numeric=True when an integer value is expected."""
    if isinstance(n, N.Name) and n.name in _J_DEFS and not isinstance(_J_DEFS[n.name], (N.List, N.Tuple)):
        d = _J_DEFS.pop(n.name)          # (popped while it is being read: no self-reference loops)
        try:
            return j_pred(d, tests, numeric)
        finally:
            _J_DEFS[n.name] = d
    if isinstance(n, N.Name):
        return ("opt", n.name)
    if isinstance(n, N.Getattr) and isinstance(n.node, N.Name) and n.node.name == "project":
        return ("len", n.attr) if numeric else ("cmp", ">", ("len", n.attr), ("const", 0))
    if isinstance(n, N.Filter) and n.name in ("length", "count") and isinstance(n.node, N.Getattr) \
            and isinstance(n.node.node, N.Name) and n.node.node.name == "project":
        return ("len", n.node.attr)
    if isinstance(n, N.Const) and isinstance(n.value, (int, bool)):
        return ("const", n.value)
    if isinstance(n, N.Add):
        return ("add", j_pred(n.left, tests, True), j_pred(n.right, tests, True))
    if isinstance(n, N.Test) and n.name in tests:
        op, c = tests[n.name]
        return ("cmp", op, j_pred(n.node, tests, True), ("const", c))
    if isinstance(n, N.Compare) and len(n.ops) == 1 and n.ops[0].op in _JOPS:
        return ("cmp", _JOPS[n.ops[0].op], j_pred(n.expr, tests, True), j_pred(n.ops[0].expr, tests, True))
    if isinstance(n, N.And):
        return ("and", j_pred(n.left, tests), j_pred(n.right, tests))
    if isinstance(n, N.Or):
        return ("or", j_pred(n.left, tests), j_pred(n.right, tests))
    if isinstance(n, N.Not):
        return ("not", j_pred(n.node, tests))
    raise AnalysisError(f"template guard not understood: {sym(n)}")


def implies(guard, goal) -> Optional[dict]:
    """None if guard => goal for all assignments, else a counterexample assignment."""
    sizes: Set[str] = set()
    opts: Set[str] = set()
    consts: Set[int] = set()
    p_vars(guard, sizes, opts, consts)
    p_vars(goal, sizes, opts, consts)
    top = max([c for c in consts if isinstance(c, int)] + [1]) + 1
    sz, op = sorted(sizes), sorted(opts)
    for vals in itertools.product(range(top + 1), repeat=len(sz)):
        s = dict(zip(sz, vals))
        for bs in itertools.product([False, True], repeat=len(op)):
            o = dict(zip(op, bs))
            if p_eval(guard, s, o) and not p_eval(goal, s, o):
                return {"sizes": s, "options": o}
    return None


def guard_of(conds, tests) -> tuple:
    g = ("const", True)
    for c in conds:
        node, pol = c[2], c[1]
        _J_DEFS.clear()
        _J_DEFS.update(c[4] if len(c) > 4 else {})
        try:
            p = j_pred(node, tests)
        except AnalysisError:
            # a guard we cannot interpret weakens the antecedent: drop it (sound for "guard => goal"
            # only if it is not needed; an unprovable implication is then reported for triage)
            continue
        g = ("and", g, p if pol else ("not", p))
    return g


# ------------------------------------------------------------------------------ python-side facts
def jinja_tests(py) -> Dict[str, Tuple[str, int]]:
    """env.tests["name"] = fn where fn returns `arg <op> <int>`."""
    out = {}
    tree = py.modules["output"]
    for st in tree.body:
        if isinstance(st, ast.Assign) and isinstance(st.targets[0], ast.Subscript):
            t = st.targets[0]
            if ast.unparse(t.value) == "env.tests" and isinstance(t.slice, ast.Constant) \
                    and isinstance(st.value, ast.Name):
                fn = py.functions.get(f"output.{st.value.id}")
                if fn and len(fn.body) and isinstance(fn.body[-1], ast.Return):
                    r = fn.body[-1].value
                    if isinstance(r, ast.Compare) and len(r.ops) == 1 and type(r.ops[0]) in _PYOPS \
                            and isinstance(r.comparators[0], ast.Constant):
                        out[t.slice.value] = (_PYOPS[type(r.ops[0])], r.comparators[0].value)
    return out


def list_page_conditions(py) -> Dict[str, Tuple[tuple, ast.AST]]:
    """out_page -> (creation predicate, node) from Documentation.__init__."""
    fn = py.func("Documentation.__init__")
    out: Dict[str, Tuple[tuple, ast.AST]] = {}

    def visit(stmts, conds):
        for st in stmts:
            if isinstance(st, ast.If):
                visit(st.body, conds + [(st.test, True)])
                visit(st.orelse, conds + [(st.test, False)])
            elif isinstance(st, (ast.Try, ast.With, ast.For, ast.While)):
                for body in (getattr(st, "body", []), getattr(st, "orelse", []), getattr(st, "finalbody", [])):
                    visit(body, conds)
                for h in getattr(st, "handlers", []):
                    visit(h.body, conds)
            else:
                for c in py.walk_calls(st):
                    if call_name(c) == "self.lists.append" and c.args and isinstance(c.args[0], ast.Call) \
                            and isinstance(c.args[0].func, ast.Name):
                        cls = c.args[0].func.id
                        ci = py.classes.get(cls)
                        page = None
                        if ci and "out_page" in ci.class_attrs:
                            page = py.eval_str(ci.class_attrs["out_page"])
                        if page is None:
                            raise AnalysisError(f"ListPage class {cls} has no constant out_page")
                        g = ("const", True)
                        for t, pol in conds:
                            p = py_pred(t)
                            g = ("and", g, p if pol else ("not", p))
                        out[page] = (g, c)
    _PRED_LOCALS.clear()
    _PRED_LOCALS.update(_single_locals(fn))
    visit(fn.body, [])
    # table-driven form: rows (needed, ListClass) and `self.lists = [cls(...) for needed, cls in rows if needed]`
    for st in ast.walk(fn):
        if not (isinstance(st, ast.Assign) and any(ast.unparse(t) == "self.lists" for t in st.targets)
                and isinstance(st.value, ast.ListComp) and len(st.value.generators) == 1):
            continue
        g = st.value.generators[0]
        if not (isinstance(g.target, ast.Tuple) and isinstance(st.value.elt, ast.Call) and isinstance(st.value.elt.func, ast.Name)):
            continue
        names = [e.id if isinstance(e, ast.Name) else None for e in g.target.elts]
        if st.value.elt.func.id not in names:
            continue
        ci_ = names.index(st.value.elt.func.id)
        flt = [names.index(i.id) for i in g.ifs if isinstance(i, ast.Name) and i.id in names]
        table = g.iter
        if isinstance(table, ast.Name):
            table = _single_locals(fn, keep_lists=True).get(table.id)
        if not isinstance(table, (ast.List, ast.Tuple)):
            continue
        for row in table.elts:
            if not (isinstance(row, ast.Tuple) and len(row.elts) == len(names) and isinstance(row.elts[ci_], ast.Name)):
                continue
            cls = row.elts[ci_].id
            ci = py.classes.get(cls)
            page = py.eval_str(ci.class_attrs["out_page"]) if ci and "out_page" in ci.class_attrs else None
            if page is None:
                raise AnalysisError(f"ListPage class {cls} has no constant out_page")
            gd = ("const", True)
            for k in flt:
                gd = ("and", gd, py_pred(row.elts[k]))
            out[page] = (gd, row)
    return out


def _single_locals(fn: ast.AST, keep_lists: bool = False) -> Dict[str, ast.AST]:
    """locals of fn that are bound exactly once by a plain (annotated) assignment: name -> value"""
    seen: Dict[str, List[ast.AST]] = {}
    for st in ast.walk(fn):
        if isinstance(st, ast.Assign) and len(st.targets) == 1 and isinstance(st.targets[0], ast.Name):
            seen.setdefault(st.targets[0].id, []).append(st.value)
        elif isinstance(st, ast.AnnAssign) and isinstance(st.target, ast.Name) and st.value is not None:
            seen.setdefault(st.target.id, []).append(st.value)
        elif isinstance(st, (ast.AugAssign, ast.For, ast.comprehension, ast.NamedExpr)):
            t = st.target
            for x in ast.walk(t):
                if isinstance(x, ast.Name):
                    seen.setdefault(x.id, []).extend([None, None])
    return {k: v[0] for k, v in seen.items() if len(v) == 1 and v[0] is not None
            and (keep_lists or not isinstance(v[0], (ast.List, ast.Dict, ast.Tuple, ast.ListComp, ast.DictComp)))}


def entity_page_map(py) -> Dict[str, tuple]:
    """project list attr -> predicate under which its entities get pages."""
    fn = py.func("Documentation.__init__")
    out: Dict[str, tuple] = {}

    def add_tuple(t, cond):
        if isinstance(t, ast.Tuple) and len(t.elts) == 2 and isinstance(t.elts[0], ast.Attribute) \
                and isinstance(t.elts[0].value, ast.Name) and t.elts[0].value.id == "project":
            out[t.elts[0].attr] = cond

    def visit(stmts, conds):
        for st in stmts:
            if isinstance(st, ast.If):
                visit(st.body, conds + [st.test])
                visit(st.orelse, conds)
            elif isinstance(st, ast.Try):
                visit(st.body, conds)
            else:
                def mk():
                    g = ("const", True)
                    for t in conds:
                        g = ("and", g, py_pred(t))
                    return g
                val = st.value if isinstance(st, (ast.AnnAssign, ast.Assign)) else None
                tgt = (st.target if isinstance(st, ast.AnnAssign) else st.targets[0]) if val is not None else None
                if isinstance(tgt, ast.Name) and isinstance(val, ast.List) and val.elts and all(
                        isinstance(e, ast.Tuple) and len(e.elts) == 2 for e in val.elts):
                    # a table of (project.<list>, PageClass) rows
                    tables.add(tgt.id)
                    for e in val.elts:
                        add_tuple(e, mk())
                if isinstance(tgt, ast.Name) and isinstance(val, ast.Dict) and val.keys and all(
                        isinstance(k, ast.Constant) and isinstance(k.value, str) and isinstance(v, ast.Name) and is_page(v.id)
                        for k, v in zip(val.keys, val.values)):
                    # a table {"<list>": PageClass}, read with getattr(project, key)
                    tables.add(tgt.id)
                    for k in val.keys:
                        out[k.value] = mk()
                if isinstance(tgt, ast.Subscript) and isinstance(tgt.value, ast.Name) and tgt.value.id in tables and \
                        isinstance(tgt.slice, ast.Constant) and isinstance(val, ast.Name) and is_page(val.id):
                    out[tgt.slice.value] = mk()
                for c in py.walk_calls(st):
                    if isinstance(c.func, ast.Attribute) and c.func.attr == "append" and isinstance(c.func.value, ast.Name) \
                            and c.func.value.id in tables and c.args:
                        add_tuple(c.args[0], mk())
    tables: Set[str] = set()

    def is_page(name: str) -> bool:
        return name in py.classes and name.endswith("Page") or py.has_func(f"output.{name}")
    visit(fn.body, [])
    if len(out) < 5:
        raise AnalysisError("the table of entity lists and their page classes was not found in Documentation.__init__")
    return out


def property_sublists(py, cls: str) -> Dict[str, Set[str]]:
    """property name -> set of self.<list> it yields from (e.g. allfiles -> {files, extra_files})."""
    out = {}
    ci = py.cls(cls)
    for name in ci.properties:
        fn = ci.methods[name]
        subs = set()
        for n in ast.walk(fn):
            if isinstance(n, ast.For) and isinstance(n.iter, ast.Attribute) and \
                    isinstance(n.iter.value, ast.Name) and n.iter.value.id == "self":
                if any(isinstance(y, (ast.Yield, ast.YieldFrom)) for y in ast.walk(n)):
                    subs.add(n.iter.attr)
            # `yield from self.<list>`, `return chain(self.a, self.b)`, `return [*self.a, *self.b]`
            srcs = []
            if isinstance(n, ast.YieldFrom):
                srcs = [n.value]
            elif isinstance(n, ast.Return) and n.value is not None:
                srcs = [n.value]
            for src in srcs:
                for a in ast.walk(src):
                    if isinstance(a, ast.Attribute) and isinstance(a.value, ast.Name) and a.value.id == "self":
                        subs.add(a.attr)
        if subs:
            out[name] = subs
    return out


# ------------------------------------------------------------------------------ R1
def render_premise(py) -> tuple:
    """conditions under which main() exits before anything is rendered, negated:
    `if len(project.files) < 1: ... sys.exit(1)`  =>  premise n(files) >= 1."""
    fn = py.func("__init__.main")
    prem = ("const", True)
    for st in fn.body:
        if isinstance(st, ast.If) and any(
                isinstance(c, ast.Call) and call_name(c) in ("sys.exit", "exit") for c in ast.walk(st)):
            try:
                prem = ("and", prem, ("not", py_pred(st.test)))
            except AnalysisError:
                continue
    return prem


def r1_list_pages(ctx, rep):
    py, j = ctx.py, ctx.j
    premise = render_premise(py)
    rep.note(f"premise from main(): {p_show(premise)}")
    tests = jinja_tests(py)
    if "more_than_one" not in tests:
        raise AnalysisError("jinja test more_than_one not found in output.py")
    pages = list_page_conditions(py)
    epm = entity_page_map(py)
    subl = property_sublists(py, "Project")
    # every place where a list page / a singular entity page is linked: literal template text and (string constant)
    # values that reach an href through macro parameters; taken from the macro-expanded view of every page template
    lit_sites: Dict[Tuple[str, int, str], Tuple[str, list, str]] = {}
    out_sites: Dict[Tuple[str, int, str], object] = {}
    for tpl in all_page_templates(ctx):
        outs, lits = j.expand(tpl)
        for lit in lits:
            for m in re.finditer(r"/lists/([\w.-]+\.html)", lit.text):
                line = lit.lineno + lit.text[:m.start()].count(chr(10))
                lit_sites.setdefault((lit.template, line, m.group(1)), (m.group(1), lit.conds, f"ford/templates/{lit.template}:{line}"))
        for o in outs:
            if o.ctx != ("attr", "href") or "<in-test>" in o.macros:
                continue
            m = re.fullmatch(r"['\"](?:/)?lists/([\w.-]+\.html)['\"]", o.sym.strip())
            if m:
                lit_sites.setdefault((o.template, o.lineno, m.group(1) + "@" + "|".join(c[0] for c in o.conds)),
                                     (m.group(1), o.conds, o.loc))
            if re.fullmatch(r"project\.(\w+)\[(\d+)\]\.get_url\(\)", o.sym.strip()):
                out_sites.setdefault((o.template, o.lineno, o.sym.strip() + "@" + "|".join(c[0] for c in o.conds)), o)
    ordinal: Dict[Tuple[str, str], int] = {}
    for (tname, line, _), (page, conds, loc) in sorted(lit_sites.items(), key=lambda kv: (kv[0][0], kv[0][1], kv[0][2])):
        k = ordinal[(tname, page)] = ordinal.get((tname, page), 0) + 1
        construct = f"template={tname} link=lists/{page}" + (f"#{k}" if k > 1 else "")
        if page not in pages:
            rep.ob(construct, False, f"no ListPage with out_page {page!r} is ever created", loc)
            continue
        guard = ("and", premise, guard_of(conds, tests))
        goal = pages[page][0]
        cex = implies(guard, goal)
        rep.ob(construct, cex is None,
               (f"guard {p_show(guard)} => creation {p_show(goal)}" if cex is None else
                f"link is emitted when {p_show(guard)} but the page is only written when "
                f"{p_show(goal)}; counterexample {cex}"), loc, witness=cex)
    # singular links project.X[k].get_url()
    for _, o in sorted(out_sites.items(), key=lambda kv: (kv[0][0], kv[0][1], kv[0][2])):
        m = re.fullmatch(r"project\.(\w+)\[(\d+)\]\.get_url\(\)", o.sym.strip())
        coll, k = m.group(1), int(m.group(2))
        guard = ("and", premise, guard_of(o.conds, tests))
        goal = ("cmp", ">", ("len", coll), ("const", k))
        pagecond = None
        for lst, cond in epm.items():
            if lst == coll or coll in subl.get(lst, set()):
                pagecond = cond
        construct = f"template={o.template} link=project.{coll}[{k}].get_url()"
        if pagecond is None:
            rep.ob(construct, False, f"entities of project.{coll} never get a page", o.loc)
            continue
        goal = ("and", goal, pagecond)
        cex = implies(guard, goal)
        rep.ob(construct, cex is None,
               (f"guard {p_show(guard)} => {p_show(goal)}" if cex is None else
                f"link emitted when {p_show(guard)} but needs {p_show(goal)}; counterexample {cex}"),
               o.loc, witness=cex)


# ------------------------------------------------------------------------------ page tables
def doc_pages(py) -> Dict[str, Tuple[str, str]]:
    """DocPage subclass -> (template_path, payload_key)."""
    out = {}
    for cls in py.subclasses("DocPage"):
        ci = py.classes[cls]
        tp = ci.class_attrs.get("template_path")
        pk = ci.class_attrs.get("payload_key")
        if tp is not None and pk is not None:
            out[cls] = (py.eval_str(tp), py.eval_str(pk))
    if len(out) < 8:
        raise AnalysisError("DocPage subclasses with template_path/payload_key not found")
    return out


# which entity classes are rendered by which page class (reviewed; cross-checked below against
# entity_list_page_map + the ProcPage factory + Project list annotations)
PAGE_PAYLOAD_CLASSES = {
    "FilePage": ["FortranSourceFile", "GenericSource"],
    "TypePage": ["FortranType"],
    "AbsIntPage": ["FortranModuleProcedureInterface"],
    "ModulePage": ["FortranModule", "FortranSubmodule"],
    "ProgPage": ["FortranProgram"],
    "BlockPage": ["FortranBlockData"],
    "ProcedurePage": ["FortranSubroutine", "FortranFunction", "FortranModuleProcedureImplementation"],
    "GenericInterfacePage": ["FortranInterface"],
    "InterfacePage": ["FortranModuleProcedureInterface"],
    "NamelistPage": ["FortranNamelist"],
}


LIFECYCLE = ("correlate", "_cleanup", "prune", "process_attribs", "markdown", "sort_components")


def all_self_attrs(py, cls: str) -> Set[str]:
    """attribute names an instance of the concrete class `cls` can carry when a page is
    rendered: constructor chain (E1 simulation) + class-level names + `self.X = ..` stores in
    the life-cycle methods that run for this class, skipping stores guarded by
    `self.obj == "<other>"` / `isinstance(self, <unrelated class>)`."""
    out: Set[str] = set(py.init_attrs(cls, stop_at_loop=False)) | py.class_level_names(cls)
    myobj = obj_value(py, cls)

    def guard_allows(test: ast.AST) -> bool:
        t = test
        if isinstance(t, ast.Compare) and len(t.ops) == 1 and isinstance(t.ops[0], ast.Eq) \
                and ast.unparse(t.left) == "self.obj" and isinstance(t.comparators[0], ast.Constant):
            return myobj is None or myobj == t.comparators[0].value
        if isinstance(t, ast.Call) and isinstance(t.func, ast.Name) and t.func.id == "isinstance" \
                and len(t.args) == 2 and ast.unparse(t.args[0]) == "self":
            ks = t.args[1].elts if isinstance(t.args[1], ast.Tuple) else [t.args[1]]
            names = [k.id for k in ks if isinstance(k, ast.Name)]
            if names and all(n in py.classes for n in names):
                return any(py.is_subclass(cls, n) for n in names)
        return True

    def visit(stmts):
        for st in stmts:
            if isinstance(st, ast.If):
                if guard_allows(st.test):
                    visit(st.body)
                visit(st.orelse)
                continue
            for f in ("body", "orelse", "finalbody"):
                if hasattr(st, f) and isinstance(getattr(st, f), list):
                    visit(getattr(st, f))
            for h in getattr(st, "handlers", []):
                visit(h.body)
            if isinstance(st, (ast.Assign, ast.AnnAssign, ast.AugAssign)):
                tg = st.targets if isinstance(st, ast.Assign) else [st.target]
                for t in tg:
                    for a in ast.walk(t):
                        if isinstance(a, ast.Attribute) and isinstance(a.value, ast.Name) \
                                and a.value.id == "self" and isinstance(a.ctx, ast.Store):
                            if not (isinstance(st, ast.AnnAssign) and st.value is None):
                                out.add(a.attr)

    for m in LIFECYCLE:
        owner = None
        seen = 0
        r = py.resolve_method(cls, m)
        while r and seen < 8:
            owner, fn = r
            visit(fn.body)
            calls_super = any(isinstance(c.func, ast.Attribute) and c.func.attr == m
                              and isinstance(c.func.value, ast.Call)
                              and isinstance(c.func.value.func, ast.Name)
                              and c.func.value.func.id == "super" for c in py.walk_calls(fn))
            r = py.resolve_method(cls, m, after=owner) if calls_super else None
            seen += 1
    return out


# collections that a payload class formally owns but that are provably always empty there
EMPTY_BY_CONSTRUCTION = {
    ("nongenint_page.html", "variables"):
        "FortranModuleProcedureInterface copies the interface block's `variables`, which only "
        "FortranInterface.correlate fills and only under `if self.generic`",
}


# ------------------------------------------------------------------------------ R2


def r2_anchors(ctx, rep):
    py, j = ctx.py, ctx.j
    pages = doc_pages(py)
    for pcls, (tpl, key) in sorted(pages.items()):
        if pcls not in PAGE_PAYLOAD_CLASSES:
            raise AnalysisError(f"page class {pcls} missing from PAGE_PAYLOAD_CLASSES (new page kind?)")
        outs, _ = j.expand(tpl)
        ids = {o.sym for o in outs if o.ctx == ("attr", "id") and "<in-test>" not in o.macros}
        attrs: Set[str] = set()
        for c in PAGE_PAYLOAD_CLASSES[pcls]:
            attrs |= all_self_attrs(py, c)
        for o in outs:
            if o.ctx != ("attr", "href"):
                continue
            # the string structure of the href, however it is composed: '<..>' + <page url> + '#' + <anchor expression>
            objs = {obj_value(py, c) for c in PAGE_PAYLOAD_CLASSES[pcls]}
            def decide(test: str):
                m = re.fullmatch(r"\(?%s\.obj (==|!=) '(\w+)'\)?" % re.escape(key), test.strip())
                if m and len(objs) == 1 and None not in objs:
                    return (next(iter(objs)) == m.group(2)) == (m.group(1) == "==")
                return None
            pairs = []
            for alt in (string_alternatives(o.sym, decide=decide) or []):
                hashes = [i for i, (k, v) in enumerate(alt) if k == "lit" and "#" in v]
                if len(hashes) == 1 and hashes[0] + 1 < len(alt):
                    i = hashes[0]
                    us = [v for k, v in alt[:i] if k == "expr"]
                    an = [v for k, v in alt[i + 1:] if k == "expr"]
                    if us and an:
                        pairs.append((us[-1], " ".join(an)))
            pairs = [(u, a) for u, a in pairs if u.startswith(f"{key}.get_url()")]      # own-page links only
            if not pairs:
                continue
            url = pairs[0][0]
            anchor = " ".join(a for _u, a in pairs)
            cm = re.search(re.escape(key) + r"\.(\w+)\[\*\]", anchor) or \
                re.search(r"\[" + re.escape(key) + r"\.(\w+)\]", anchor)
            am = re.findall(r"([\w.\[\]*]+\.anchor)", anchor)
            if not am:
                continue
            target = am[-1]
            coll = re.match(re.escape(key) + r"\.(\w+)", target)
            collname = coll.group(1) if coll else "?"
            # `[self.constructor] if self.constructor else []` is a one-element list
            target_alt = target.replace(f"[{key}.constructor][*]", f"{key}.constructor")
            if "sourcefile" in url and pcls == "FilePage":
                # collection_url is False for source files: the link goes to the entity's own page
                rep.ob(f"page={tpl} collection={collname}", True,
                       "panel links to the items' own pages on file pages (collection_url is False)",
                       o.loc, nontrivial=False)
                continue
            construct = f"page={tpl} collection={collname}"
            if (tpl, collname) in EMPTY_BY_CONSTRUCTION:
                rep.ob(construct, True, "exempt: " + EMPTY_BY_CONSTRUCTION[(tpl, collname)], o.loc,
                       nontrivial=False)
                continue
            if collname not in attrs:
                rep.ob(construct, True, f"payload classes {PAGE_PAYLOAD_CLASSES[pcls]} never own "
                       f"'{collname}' (panel is never rendered)", o.loc, nontrivial=False)
                continue
            ok = target in ids or target_alt in ids
            near = sorted(i for i in ids if i.startswith(f"{key}.{collname}"))[:3]
            rep.ob(construct, ok,
                   (f"sidebar links #{target}; page body defines id={target}" if ok else
                    f"sidebar links {key}.get_url()#{{{{ {target} }}}} but no element with that id is "
                    f"emitted on {tpl}" + (f" (nearest ids: {near})" if near else " (no section for this collection)")),
                   o.loc)


# ------------------------------------------------------------------------------ R3
NEVER_VISIBLE = {
    # join over dummy arguments: FortranVariable.visible is False at construction and only
    # FortranType.prune flips it (for components); procedure arguments are removed from
    # `variables` in FortranProcedure._cleanup, so str(arg) is the bare name.
    "args": "dummy arguments are never marked visible (FortranProcedure._cleanup removes them from variables)",
}


def setup_types(ctx):
    py, j = ctx.py, ctx.j
    lists, singles = tables.children_lists(py)
    plists = tables.project_lists(py)
    JModel.ENTITY_LIST_ATTRS = set(lists) | set(plists) | set(tables.EXTRA_ENTITY_LISTS)
    JModel.ENTITY_ATTRS = set(singles) | set(tables.EXTRA_ENTITIES)
    JModel.LINKSTR_ATTRS = set(tables.LINK_STRINGS)
    JModel.PROJECT_LISTS = set(plists) | set(property_sublists(py, "Project"))
    roots = {"project": "P"}
    for cls, (tpl, key) in doc_pages(py).items():
        roots[key] = "E"
    JModel.ROOT_TYPES = roots
    # cross-check the reviewed tables: each name must be assigned somewhere in sourceform/project
    src = py.sources["sourceform"] + py.sources["fortran_project"]
    missing = [a for a in list(tables.EXTRA_ENTITY_LISTS) + list(tables.EXTRA_ENTITIES) + list(tables.LINK_STRINGS)
               if not re.search(r"\b" + re.escape(a) + r"\b", src)]
    if missing:
        raise AnalysisError(f"reviewed link tables name attributes that no longer exist: {missing}")


def all_page_templates(ctx) -> List[str]:
    py = ctx.py
    tpls = {tp for tp, _ in doc_pages(py).values()}
    for cls in py.subclasses("BasePage"):
        tp = py.classes[cls].class_attrs.get("template_path")
        if tp is not None and py.eval_str(tp):
            tpls.add(py.eval_str(tp))
    return sorted(tpls)


def r3_relurl(ctx, rep):
    setup_types(ctx)
    j = ctx.j
    seen = set()
    # template globals that hold an absolute path of the output tree: `globals=dict(page_url=self.outfile, ...)`
    abs_globals = set()
    for x in ast.walk(ctx.py.modules["output"]):
        if isinstance(x, ast.keyword) and x.arg == "globals" and isinstance(x.value, ast.Call) and call_name(x.value) == "dict":
            abs_globals |= {k.arg for k in x.value.keywords if k.arg and ast.unparse(k.value).endswith(".outfile")}
    if not abs_globals:
        raise AnalysisError("output: the template global holding the page's file name was not found")
    for tpl in all_page_templates(ctx):
        outs, _ = j.expand(tpl)
        for o in outs:
            if "<in-test>" in o.macros:
                continue
            if o.src.strip() in abs_globals:
                # the page's own absolute file name is an argument for relurl, never something to print
                key = (o.template, o.lineno, o.src)
                if key not in seen:
                    seen.add(key)
                    rep.ob(f"template={o.template} expr={o.src} (absolute path)", False,
                           f"`{{{{ {o.src} }}}}` writes the absolute file-system path of the page into the HTML "
                           f"(get_template(globals=...{o.src}=self.outfile)): the output is not relocatable and shows the build "
                           f"directory", o.loc)
                continue
            if o.core_etype not in ("E", "EL", "LS") and o.etype not in ("E", "EL", "LS"):
                continue
            key = (o.template, o.lineno, o.src)
            if key in seen:
                continue
            seen.add(key)
            ok = o.etype == "S"
            construct = f"template={o.template} expr={o.src}"
            if not ok:
                last = re.findall(r"\.(\w+)(?:\[\*\])?(?:\|[\w|(), '\"]+)?$", o.sym)
                base = re.sub(r"\|.*$", "", o.src)
                tail = base.split(".")[-1] if "." in base else ""
                if tail in NEVER_VISIBLE:
                    rep.ob(construct, True, f"exempt: {NEVER_VISIBLE[tail]}", o.loc, nontrivial=False)
                    continue
            rep.ob(construct, ok,
                   ("link-bearing value passes relurl" if ok else
                    f"value of abstract type {o.core_etype} ({o.sym}) is written without the relurl filter: "
                    f"str() of an entity is an <a href> built from the absolute output path"), o.loc)


    _relurl_only_rewrites_absolute_paths(ctx, rep)


def relurl_replaced_sources(py):
    """(relative_url, its event trace, the expression whose text is replaced, the events that give that expression its value)"""
    fn = py.func("output.relative_url")
    rel = [c for c in py.walk_calls(fn) if call_name(c).endswith("relpath") and c.args]
    if len(rel) != 1:
        raise AnalysisError("relative_url: expected one os.path.relpath call")
    ev = astq.trace(fn)
    # the text that is looked for in the argument and replaced: `<text>.replace(<old>, <new>)` with <new> made by relpath
    reps = [c for c in py.walk_calls(fn) if isinstance(c.func, ast.Attribute) and c.func.attr == "replace" and len(c.args) >= 2
            and any(any(x is rel[0] for x in ast.walk(y)) for y in [c.args[1]] + astq.expand_locals(c.args[1], fn))]
    if len(reps) != 1:
        raise AnalysisError("relative_url: the replacement of the old path by the relative one was not found")
    arg = reps[0].args[0]
    if isinstance(arg, ast.Name):
        sources = [e for e in ev if e.kind == "assign" and e.target == arg.id and e.value is not None
                   and not (isinstance(e.value, ast.Constant) and e.value.value is None)]
    else:
        sources = [e for e in ev if e.kind == "call" and e.node is reps[0]]
    if not sources:
        raise AnalysisError("relative_url: the text that is replaced has no source")
    return fn, ev, arg, sources


def _relurl_only_rewrites_absolute_paths(ctx, rep):
    """relative_url() takes a path out of its argument, makes it relative to the page and puts it back by text replacement.  An
    href that is relative already (a "Read more" link, a converted [[reference]], |url|) must come out unchanged: either the path
    is made absolute first (then the replacement does not find it in the text), or the rewriting is restricted to absolute paths.
    `os.path.relpath` of a relative path is taken against the *current directory*, which gives a link out of the output tree."""
    py = ctx.py
    fn, ev, arg, sources = relurl_replaced_sources(py)

    def makes_absolute(v: ast.AST) -> bool:
        return any(isinstance(c, ast.Call) and (call_name(c).split(".")[-1] in ("abspath", "realpath") or
                                                (isinstance(c.func, ast.Attribute) and c.func.attr in ("resolve", "absolute")))
                   for c in ast.walk(v))

    def atom(x):
        if isinstance(x, ast.Call) and (call_name(x) == "os.path.isabs" or (isinstance(x.func, ast.Attribute) and x.func.attr == "is_absolute")):
            return ("abs", True)
        return None
    for e in sources:
        v = e.value if e.kind == "assign" else arg
        ok = makes_absolute(v) or astq.path_implies(e, atom, {"abs": True}) is True
        rep.ob(f"relative_url: the replaced text `{ast.unparse(v)[:50]}` is an absolute path", ok,
               "made absolute (or tested to be) before it is looked for in the text" if ok else
               f"`{ast.unparse(v)[:60]}` can be a relative href as it stands in the text: it is found, and replaced by its position "
               f"relative to the *current directory* - a correct relative link turns into one that leaves the output directory",
               py.nloc(e.node))


def get_dir_gives_page(py, cls: str, parent_cls: str) -> Optional[bool]:
    """does FortranBase.get_dir() return a directory for an entity of class `cls` declared in a `parent_cls`?  Decided by
    evaluating the conditions of its `return self.obj` on the two classes (isinstance tests against class tuples, base classes,
    negations - whatever the spelling); None if the conditions involve something else"""
    base = py.func("FortranBase.get_dir")
    memo = py.__dict__.setdefault("_get_dir_events", None)
    if memo is None:
        memo = py.__dict__["_get_dir_events"] = [e for e in astq.trace(base) if e.kind == "return" and e.value is not None
                                                  and not (isinstance(e.value, ast.Constant) and e.value.value is None)]

    def atom(x):
        if isinstance(x, ast.Call) and call_name(x) == "isinstance" and len(x.args) == 2 and ast.unparse(x.args[0]) in ("self", "self.parent"):
            who = cls if ast.unparse(x.args[0]) == "self" else parent_cls
            ks = x.args[1].elts if isinstance(x.args[1], ast.Tuple) else [x.args[1]]
            names = [ast.unparse(k) for k in ks]
            if all(k in py.classes for k in names):
                return ("yes", True) if any(py.is_subclass(who, k) for k in names) else ("no", True)
        return None
    res = [astq.event_fires(e, atom, {"yes": True, "no": False}) for e in memo]
    if any(r is True for r in res):
        return True
    if all(r is False for r in res):
        return False
    return None


def class_has_page(py, cls: str, parent_cls: str, after: Optional[str] = None) -> Optional[bool]:
    """like get_dir_gives_page, but through the get_dir() that runs for `cls` (overrides that return a directory of their own,
    return None, or defer to `super().get_dir()`); True if some return that can fire names a directory"""
    r = py.resolve_method(cls, "get_dir", after=after)
    if r is None:
        return None
    owner, fn = r
    if owner == "FortranBase":
        return get_dir_gives_page(py, cls, parent_cls)

    def atom(x):
        if isinstance(x, ast.Call) and call_name(x) == "isinstance" and len(x.args) == 2 and ast.unparse(x.args[0]) in ("self", "self.parent"):
            who = cls if ast.unparse(x.args[0]) == "self" else parent_cls
            ks = x.args[1].elts if isinstance(x.args[1], ast.Tuple) else [x.args[1]]
            names = [ast.unparse(k) for k in ks]
            if all(k in py.classes for k in names):
                return ("yes", True) if any(py.is_subclass(who, k) for k in names) else ("no", True)
        return None
    verdicts = []
    for e in astq.trace(fn):
        if e.kind != "return" or e.value is None or astq.event_fires(e, atom, {"yes": True, "no": False}) is False:
            continue
        alts = [e.value.body, e.value.orelse] if isinstance(e.value, ast.IfExp) else [e.value]
        for v in alts:
            if isinstance(v, ast.Constant) and v.value is None:
                verdicts.append(False)
            elif isinstance(v, ast.Constant):
                # a fixed directory name: the entity is shown on another entity's page (C10.R4 checks that `ident` follows)
                verdicts.append(None)
            elif any(isinstance(c, ast.Call) and isinstance(c.func, ast.Attribute) and c.func.attr == "get_dir"
                     and isinstance(c.func.value, ast.Call) and call_name(c.func.value) == "super" for c in ast.walk(v)):
                verdicts.append(class_has_page(py, cls, parent_cls, after=owner))
            else:
                verdicts.append(True)
    if any(v is True for v in verdicts):
        return True
    if verdicts and all(v is False for v in verdicts):
        return False
    return None


def _gather_recursion_covers_displayed_procedures(ctx, rep):
    """Entities that always have a page (namelists) are gathered by walking down from the program units through their procedures.
    The walk has to reach every procedure that is displayed, i.e. every procedure list the display filter recurses into: a list
    that prune() descends into but the gathering walk does not (module functions / subroutines of a submodule, which correlate
    moves into lists of their own) leaves the namelists of those procedures with a link to a page that is never written."""
    py = ctx.py
    from . import c05
    pr = py.func("FortranCodeUnit.prune")
    pruned: Set[str] = set()
    for lp in ast.walk(pr):
        if isinstance(lp, ast.For) and isinstance(lp.iter, ast.Call) and call_name(lp.iter) == "self.iterator" and \
                any(call_name(c).endswith(".prune") for c in py.walk_calls(lp)):
            pruned |= {a.value for a in lp.iter.args if isinstance(a, ast.Constant)}
    proc_lists = {l for l in pruned if l in c05.LIST_ELEM and py.is_subclass(c05.LIST_ELEM[l], "FortranCodeUnit")
                  and not py.is_subclass(c05.LIST_ELEM[l], "FortranType")}
    if len(proc_lists) < 3:
        raise AnalysisError(f"FortranCodeUnit.prune: the recursion into displayed procedures was not found ({sorted(pruned)})")
    fn = py.func("Project.correlate")
    subl = property_sublists(py, "FortranBase")
    for cname in ("FortranContainer", "FortranCodeUnit"):
        if cname in py.classes:
            for k, v in property_sublists(py, cname).items():
                subl.setdefault(k, set()).update(v)
    # `return self.iterator("functions", ...)` style properties
    for cname in ("FortranBase", "FortranContainer", "FortranCodeUnit"):
        ci = py.classes.get(cname)
        for pname in (ci.properties if ci else []):
            for c in py.walk_calls(ci.methods[pname]):
                if call_name(c) == "self.iterator":
                    subl.setdefault(pname, set()).update(a.value for a in c.args if isinstance(a, ast.Constant))
    n = 0
    for h in ast.walk(fn):
        if not (isinstance(h, ast.FunctionDef) and h is not fn and h.args.args):
            continue
        ent = h.args.args[0].arg
        regs = [c for c in py.walk_calls(h) if re.fullmatch(r"self\.\w+\.(extend|append)", call_name(c))]
        rec = [lp for lp in ast.walk(h) if isinstance(lp, ast.For) and any(call_name(c) == h.name for c in py.walk_calls(lp))]
        if not regs or not rec:
            continue
        n += 1
        walked: Set[str] = set()
        for lp in rec:
            for a in ast.walk(lp.iter):
                if isinstance(a, ast.Attribute) and ast.unparse(a.value) == ent:
                    walked |= subl.get(a.attr, {a.attr})
                if isinstance(a, ast.Constant) and isinstance(a.value, str):
                    walked.add(a.value)
        missing = sorted(proc_lists - walked)
        lst = call_name(regs[0]).split(".")[1]
        rep.ob(f"Project.correlate.{h.name}: the walk that fills project.{lst} reaches every displayed procedure", not missing,
               f"descends into {sorted(walked & proc_lists)}" if not missing else
               f"`{h.name}` descends into {sorted(walked & set(c05.LIST_ELEM))} but the display filter also keeps the procedures in {missing}: a `{lst[:-1]}` "
               f"declared in such a procedure is shown on its page with a link to `{lst[:-1]}/<name>.html`, which is never written",
               py.nloc(h))
    if n == 0:
        raise AnalysisError("Project.correlate: no recursive gathering helper found")


# ------------------------------------------------------------------------------ R4
def template_depths(ctx) -> Dict[str, Set[str]]:
    """template file -> set of depths {'0','1','var'} of the pages that include text from it."""
    py, j = ctx.py, ctx.j
    page_depth: Dict[str, str] = {}
    for cls in py.subclasses("BasePage"):
        ci = py.classes[cls]
        tp = ci.class_attrs.get("template_path")
        if tp is None or not py.eval_str(tp):
            continue
        t = py.eval_str(tp)
        if py.is_subclass(cls, "ListTopPage"):
            d = "0"
        elif py.is_subclass(cls, "ListPage") or py.is_subclass(cls, "DocPage"):
            d = "1"
        elif cls == "PagetreePage":
            d = "var"
        else:
            raise AnalysisError(f"page class {cls}: depth unknown")
        page_depth[t] = d
    out: Dict[str, Set[str]] = {}
    for t, d in page_depth.items():
        outs, lits = j.expand(t)
        for r in list(outs) + list(lits):
            out.setdefault(r.template, set()).add(d)
    return out


def r4_depth(ctx, rep):
    j = ctx.j
    depths = template_depths(ctx)
    # which macro (by file) text is reached from which page depth: recompute per literal
    py = ctx.py
    page_depth = {}
    for cls in py.subclasses("BasePage"):
        tp = py.classes[cls].class_attrs.get("template_path")
        if tp is None or not py.eval_str(tp):
            continue
        t = py.eval_str(tp)
        page_depth[t] = "0" if py.is_subclass(cls, "ListTopPage") else (
            "var" if cls == "PagetreePage" else "1")
    seen = {}
    for t, d in sorted(page_depth.items()):
        outs, lits = j.expand(t)
        for lit in lits:
            for m in re.finditer(r"""(?:href|src|action)\s*=\s*["']\.\./""", lit.text):
                key = (lit.template, lit.lineno, m.start())
                seen.setdefault(key, set()).add((d, t))
        for o in outs:
            if o.ctx[0] == "attr" and o.ctx[1] in ("href", "src", "action") and "'../" in o.sym:
                key = (o.template, o.lineno, o.src)
                seen.setdefault(key, set()).add((d, t))
    for key, ds in sorted(seen.items(), key=lambda kv: (kv[0][0], kv[0][1], str(kv[0][2]))):
        bad = sorted(t for d, t in ds if d != "1")
        construct = f"template={key[0]} literal-dotdot#{key[2] if isinstance(key[2], str) else 'text'}"
        rep.ob(construct + f"@{'+'.join(sorted({d for d, _ in ds}))}", not bad,
               ("'../' link only reached from depth-1 pages" if not bad else
                f"a literal '../' link is rendered on page template(s) {bad} whose output is not one "
                f"directory below the site root"), f"ford/templates/{key[0]}:{key[1]}")
    # depth-0 / variable-depth templates must build site-root links from project_url or relurl
    for t, d in sorted(page_depth.items()):
        if d == "1":
            continue
        outs, lits = j.expand(t)
        for lit in lits:
            for m in re.finditer(r"""(?:href|src|action)\s*=\s*["'](?!https?:|#|mailto:|\{|//)([^"'{]+)""", lit.text):
                v = m.group(1)
                if v.strip() == "":
                    continue
                rep.ob(f"template={lit.template} literal-relative-link={v.strip()[:40]} page={t}", False,
                       f"literal relative link {v!r} on a page whose depth is {d}: only project_url/relurl-based "
                       f"links are relocatable there", f"ford/templates/{lit.template}:{lit.lineno}")


# ------------------------------------------------------------------------------ R5
def anchored_url_from_parent(ctx, rep):
    """an entity documented on its owner's page gets '<owner page>#<anchor>': the owner is the entity's *current*
    parent (inherited bindings are re-parented to the extending type during correlation), not something recorded at
    construction time"""
    py = ctx.py
    guf = py.func("FortranBase.get_url")
    ev = astq.trace(guf)
    anch = [e for e in ev if e.kind == "return" and e.value is not None and "anchor" in " ".join(
        ast.unparse(x) for x in astq.expand_locals(e.value, guf))]
    if not anch:
        raise AnalysisError("FortranBase.get_url: the '<page>#<anchor>' return was not found")
    for e in anch:
        src = " ".join(ast.unparse(x) for x in astq.expand_locals(e.value, guf, depth=5))
        conds = " ".join(e.cond_texts())
        from_parent = "self.parent.get_url()" in src or "self.parent.get_url()" in conds
        stale = "hierarchy" in src or "hierarchy" in conds
        ok = from_parent and not stale
        rep.ob("get_url: the owner's page is the current parent's page", ok,
               "built from self.parent.get_url()" if ok else
               f"the page part of `{ast.unparse(e.value)[:60]}` comes from {'the constructor-time hierarchy' if stale else 'something other than self.parent'}: "
               f"a generic binding inherited by an extending type links to the base type's page, where its anchor does not exist",
               py.nloc(e.node))


def r5_dirs(ctx, rep):
    py = ctx.py
    anchored_url_from_parent(ctx, rep)
    # directories writeout creates
    fn = py.func("Documentation.writeout")
    created: Set[str] = set()
    oenv = py.module_env("output")
    for n in ast.walk(fn):
        if isinstance(n, ast.For) and any(call_name(c).endswith(".mkdir") for c in py.walk_calls(n)):
            v = py.eval_const(n.iter, oenv)
            if isinstance(v, (list, tuple)):
                created |= {x for x in v if isinstance(x, str)}
    if len(created) < 6:
        raise AnalysisError("writeout: directory creation loop (over a constant list of names) not found")
    # values get_dir can return: self.obj of the classes in the isinstance tuples + literal returns
    returns: Dict[str, str] = {}
    for cls, ci in py.classes.items():
        if "get_dir" in ci.methods and cls != "FortranBase":
            for r in ast.walk(ci.methods["get_dir"]):
                if isinstance(r, ast.Return) and isinstance(r.value, ast.Constant) and isinstance(r.value.value, str):
                    returns[f"{cls}.get_dir"] = r.value.value
    base = py.func("FortranBase.get_dir")
    classes: Set[str] = set()
    for n in ast.walk(base):
        if isinstance(n, ast.Call) and isinstance(n.func, ast.Name) and n.func.id == "isinstance" \
                and isinstance(n.args[0], ast.Name) and n.args[0].id == "self" and isinstance(n.args[1], ast.Tuple):
            classes |= {e.id for e in n.args[1].elts if isinstance(e, ast.Name)}
    if len(classes) < 6:
        raise AnalysisError("FortranBase.get_dir: class tuples not found")
    for cls in sorted(classes):
        for sub in py.subclasses(cls):
            if sub.startswith("External"):
                continue
            constructed = any(isinstance(c.func, ast.Name) and c.func.id == sub
                              for t in py.modules.values() for c in ast.walk(t) if isinstance(c, ast.Call))
            if not constructed:
                continue   # abstract base, never instantiated
            owner, gfn = py.resolve_method(sub, "get_dir")
            if owner != "FortranBase" and "super().get_dir()" not in ast.unparse(gfn):
                continue   # full override: judged through its literal return values below
            obj = obj_value(py, sub)
            if obj is None:
                continue
            rep.ob(f"get_dir class={sub} dir={obj}", obj in created,
                   f"get_dir() may return {obj!r} for {sub}; writeout creates {sorted(created)}",
                   py.nloc(base))
    for k, v in sorted(returns.items()):
        rep.ob(f"{k} dir={v}", v in created, f"{k} returns {v!r}; writeout creates {sorted(created)}",
               py.nloc(py.func(k.replace('.get_dir', '') + '.get_dir')))
    # DocPage.outfile / loc / get_url compose (get_dir, ident, .html) identically
    guf = py.func("FortranBase.get_url")
    shapes = set()
    senv = {"__by_text__": True, "self.ident": "{ident}", "self.get_dir()": "{dir}"}
    for e in astq.trace(guf):
        if e.kind == "return" and e.value is not None and any("get_dir" in c and not c.startswith("not ") for c in e.cond_texts() +
                                                                  [ast.unparse(x) for x in astq.expand_locals(e.value, guf)]):
            env = dict(senv)
            for nm, val in [(n.id, v) for n in ast.walk(e.value) if isinstance(n, ast.Name) for _, v in astq.assignments(guf, n.id) if v is not None]:
                if "get_dir" in ast.unparse(val):
                    env[nm] = "{dir}"
            v = py.eval_const(e.value, env)
            if isinstance(v, str) and "{dir}" in v:
                shapes.add(v)
    ok = shapes == {"{dir}/{ident}.html"}
    rep.ob("get_url composes '{dir}/{ident}.html'", ok,
           "FortranBase.get_url returns '<get_dir()>/<ident>.html'" if ok else
           f"FortranBase.get_url composes the page URL as {sorted(shapes) or 'an expression that is not understood'}",
           py.nloc(guf))
    # symbolic value of the property, resolved through the class hierarchy (DocPage may inherit `outfile` and supply `loc`)
    off = py.resolve_method("DocPage", "outfile")[1]
    outv = py.path_values("DocPage", "outfile", {"self.out_dir": "{out}", "self.obj.get_dir()": "{dir}", "self.obj.ident": "{ident}"})
    of_ok = outv == {"{out}/{dir}/{ident}.html"}
    rep.ob("DocPage.outfile composes out_dir/get_dir()/ident.html", of_ok,
           "DocPage writes the page exactly where get_url points" if of_ok else
           f"DocPage.outfile = {sorted(outv)}", py.nloc(off))
    # asset directories referenced from templates under project_url exist
    copied: Set[str] = set(created)
    for c in py.walk_calls(fn):
        if call_name(c).split(".")[-1] in ("copytree", "copy", "copyfile", "copy2") and len(c.args) >= 2:
            lits = astq.path_literals(c.args[1], fn)
            if lits:
                copied.add(lits[0].split("/")[0])
    for n in ast.walk(fn):
        if isinstance(n, ast.For) and any(call_name(c).split(".")[-1] == "copytree" for c in py.walk_calls(n)):
            v = py.eval_const(n.iter, oenv)
            if isinstance(v, (list, tuple)):
                copied |= {x for x in v if isinstance(x, str)}
    copied |= {"index.html", "search.html"}
    refs = set()
    for o in ctx.j.outputs:
        if o.src == "project_url" and o.suffix.startswith("/"):
            m = re.match(r"/([\w.-]+)", o.suffix)
            if m:
                refs.add((m.group(1), o.loc))
    for name, loc in sorted(refs):
        rep.ob(f"asset-root={name}", name in copied,
               f"templates reference {{{{ project_url }}}}/{name}; writeout provides {sorted(copied)}", loc)


def obj_value(py, cls: str) -> Optional[str]:
    """the `obj` string of instances of cls (class attr, explicit assignment, or derived from name)."""
    memo = py.__dict__.setdefault("_obj_value_memo", {})
    if cls not in memo:
        memo[cls] = _obj_value(py, cls)
    return memo[cls]


def _obj_value(py, cls: str) -> Optional[str]:
    for c in py.mro(cls):
        ci = py.classes.get(c)
        if not ci:
            continue
        if "obj" in ci.class_attrs:
            return py.eval_str(ci.class_attrs["obj"])
        if c == "FortranBase":
            break   # FortranBase.__init__ derives obj from the class name (handled below)
        init = ci.methods.get("__init__")
        if init:
            for n in ast.walk(init):
                if isinstance(n, ast.Assign) and any(
                        isinstance(t, ast.Attribute) and t.attr == "obj" and isinstance(t.value, ast.Name)
                        and t.value.id == "self" for t in n.targets) and isinstance(n.value, ast.Constant):
                    return n.value.value
            if c == "FortranBase":
                break
    if not cls.startswith("Fortran"):
        return None
    obj = cls[7:].lower()
    if obj in ("subroutine", "function", "moduleprocedureimplementation"):
        obj = "proc"
    return obj


# ------------------------------------------------------------------------------ R6
def r6_graph_urls(ctx, rep):
    """graph node URLs (and entity links) only for visible entities."""
    py = ctx.py
    fn = py.ifunc("BaseNode.__init__")      # canonical form: a guard hoisted into a named local reads like the inline test
    found = False
    for a in ast.walk(fn):
        if isinstance(a, ast.Assign) and any(
                isinstance(t, ast.Subscript) and ast.unparse(t.value) == "self.attribs"
                and isinstance(t.slice, ast.Constant) and t.slice.value == "URL" for t in a.targets):
            found = True
            tests = []
            n = a
            while n is not fn:
                par = py.parents[n]
                if isinstance(par, ast.If) and n in par.body:
                    tests.append(ast.unparse(par.test))
                n = par
            ok = any("visible" in t and "obj" in t for t in tests)
            rep.ob(f"BaseNode.__init__ URL-guard value={ast.unparse(a.value)}", ok,
                   ("node URL is set only under the entity's `visible` flag" if ok else
                    f"graph node URL is set under {tests} which does not consult `visible`: nodes of "
                    f"entities without a page would link to files that are never written"),
                   py.nloc(a))
    if not found:
        raise AnalysisError("BaseNode.__init__: URL assignment not found")
    fn = py.func("FortranBase.__str__")
    src = ast.unparse(fn)
    first_if = next((n for n in ast.walk(fn) if isinstance(n, ast.If)), None)
    ok = first_if is not None and "visible" in ast.unparse(first_if.test) and "full_url" in ast.unparse(first_if.test)
    rep.ob("FortranBase.__str__ link-guard", ok,
           "str(entity) emits <a href> only when full_url is set and the entity is visible" if ok else
           "FortranBase.__str__ no longer tests `visible` before emitting a link", py.nloc(fn))


# collections whose members get_url() maps to '<page of the owner>#<anchor>' (FortranBase.get_url's
# second isinstance tuple), directly or one procedure level down (arguments of contained procedures)
ANCHORED_LISTS = ["variables", "args", "boundprocs", "finalprocs", "common", "enums", "functions", "subroutines",
                  "modfunctions", "modsubroutines", "modprocedures"]
PROC_LISTS = ["functions", "subroutines", "modfunctions", "modsubroutines", "modprocedures"]


def r8_anchor_targets_exist(ctx, rep):
    """[[owner:item]] and entity links resolve to '<owner page>#<item.anchor>': on every page template the
    element with that id must be emitted for each anchored collection the payload can own - and not only
    under a run-time condition such as `.visible` / a summary flag."""
    py, j = ctx.py, ctx.j
    pages = doc_pages(py)
    arg_kinds: Dict[str, Set[str]] = {}
    for pcls, (tpl, key) in sorted(pages.items()):
        if pcls in ("FilePage", "NamelistPage", "GenericInterfacePage", "InterfacePage", "AbsIntPage"):
            continue
        outs, _ = j.expand(tpl)
        ids: Dict[str, List[List[str]]] = {}
        kinds_of: Dict[str, List[Tuple[Set[str], List[str]]]] = {}      # per anchor: (row kinds the output is emitted for, dyn)
        for o in outs:
            if o.ctx == ("attr", "id") and "<in-test>" not in o.macros and o.sym.endswith(".anchor"):
                # the condition as written in the macro and with the caller's arguments substituted (`id=not proc.visible`)
                dyn = [c[0] for c in o.conds if any(re.search(r"\.visible\b|\bsummary\b", t)
                                                    and (c[1] or re.search(r"\bnot\b", t) is None) for t in (sym(c[2]), c[0]))]
                ids.setdefault(o.sym, []).append(dyn)
                ks = {m.group(1) for c in o.conds if c[1] for m in [re.search(r"\.obj == '(\w+)'\)?$", c[0])] if m}
                kinds_of.setdefault(o.sym, []).append((ks or {"*"}, dyn))
        owned: Set[str] = set()
        for c in PAGE_PAYLOAD_CLASSES[pcls]:
            owned |= all_self_attrs(py, c)
        wanted = [f"{key}.{l}[*].anchor" for l in ANCHORED_LISTS if l in owned]
        wanted += [f"{key}.{l}[*].args[*].anchor" for l in PROC_LISTS if l in owned]
        for w in wanted:
            coll = w.split(".")[1].split("[")[0]
            if (tpl, coll) in EMPTY_BY_CONSTRUCTION:
                continue
            recs = ids.get(w)
            if recs is None:
                # collections without a section are reported by R2 (sidebar); only nested args matter here
                if ".args[*]" not in w:
                    continue
                rep.ob(f"page={tpl} anchor {w}", False, f"no element with id {{{{ {w} }}}} is emitted on {tpl}: links to "
                       f"arguments of contained procedures ([[proc:arg]]) have no target", f"ford/templates/{tpl}")
                continue
            # every kind of row that emits the id at all must also emit it unconditionally somewhere
            row_kinds = sorted({k for ks, _ in kinds_of[w] for k in ks})
            ok = all(any(k in ks and not dyn for ks, dyn in kinds_of[w]) for k in row_kinds)
            if ok and w.endswith(".args[*].anchor"):
                arg_kinds.setdefault(tpl, set()).update(row_kinds)
                recs = [dyn for _ks, dyn in kinds_of[w]]
            if not ok:
                recs = [dyn for ks, dyn in kinds_of[w] if dyn] or recs
            rep.ob(f"page={tpl} anchor {w}", ok,
                   "id emitted unconditionally for every member" if ok else
                   f"the id {{{{ {w} }}}} is only emitted under {recs[0]}: for members where that run-time flag is set the "
                   f"anchor that get_url()/[[...]] links point to does not exist", f"ford/templates/{tpl}")
    # a dummy argument may be a procedure (described by an interface block): [[proc:arg]] then points at '#proc-<arg>', so the
    # argument table must emit the id for that kind of row as well
    if _args_may_hold_procedures(py):
        # the procedure that replaces the dummy argument gets its URL from its parent: it has to be re-parented from the
        # interface block (which has no page section of its own here) to the procedure it is an argument of
        fn = py.ifunc("FortranProcedure._cleanup")
        stored = {ast.unparse(st.value) for st in ast.walk(fn) if isinstance(st, ast.Assign) and isinstance(st.value, ast.Name) and any(
            isinstance(t, ast.Subscript) and ast.unparse(t.value) == "self.args" for t in st.targets)}
        aliases = set(stored)
        for _ in range(3):
            for st in ast.walk(fn):
                if isinstance(st, ast.Assign) and len(st.targets) == 1 and isinstance(st.targets[0], ast.Name):
                    t, v = st.targets[0].id, st.value
                    if t in aliases and isinstance(v, ast.Name):
                        aliases.add(v.id)
        from_iface = {a for a in aliases for st in ast.walk(fn) if isinstance(st, ast.Assign) and len(st.targets) == 1
                      and isinstance(st.targets[0], ast.Name) and st.targets[0].id == a
                      and any(isinstance(x, ast.Attribute) and x.attr == "procedure" for x in ast.walk(st.value))}
        reparented = any(isinstance(st, ast.Assign) and isinstance(st.targets[0], ast.Attribute) and st.targets[0].attr == "parent"
                         and isinstance(st.targets[0].value, ast.Name) and st.targets[0].value.id in aliases
                         and ast.unparse(st.value) == "self" for st in ast.walk(fn))
        if not from_iface:
            raise AnalysisError("FortranProcedure._cleanup: the interface procedure that replaces a dummy argument was not identified")
        rep.ob("a dummy procedure is re-parented to the procedure it is an argument of", reparented,
               "its URL is '<page of the procedure>#proc-<name>'" if reparented else
               "the procedure taken from the interface block keeps the block as its parent: its URL (and that of its own "
               "arguments) becomes 'interface/<name>.html', a page that is never written", py.nloc(fn), nontrivial=True)
        for tpl, kinds in sorted(arg_kinds.items()):
            ok = "*" in kinds or {"variable", "proc"} <= kinds
            rep.ob(f"page={tpl} argument anchors cover dummy procedures", ok,
                   "the id is emitted for variable and procedure arguments" if ok else
                   f"the argument table emits an id only for rows with obj in {sorted(kinds)}: a dummy procedure has the URL "
                   f"'<page>#proc-<name>' but no element carries that id (dead fragment for [[proc:callback]])",
                   f"ford/templates/{tpl}", nontrivial=not ok)



def _args_may_hold_procedures(py) -> bool:
    """FortranProcedure._cleanup replaces a dummy argument by the procedure of the interface block that describes it"""
    fn = py.func("FortranProcedure._cleanup")
    for st in ast.walk(fn):
        if isinstance(st, ast.Assign) and any(isinstance(t, ast.Subscript) and ast.unparse(t.value) == "self.args" for t in st.targets):
            if any(isinstance(a, ast.Attribute) and a.attr in ("procedure", "interfaces") for x in astq.expand_locals(st.value, fn)
                   for a in ast.walk(x)) or any(isinstance(n, ast.For) and "interfaces" in ast.unparse(n.iter) and st in list(ast.walk(n))
                                                for n in ast.walk(fn)):
                return True
    return False


def r7_pageable_entities_get_pages(ctx, rep):
    """every entity whose get_url() names its own page (get_dir() is not None) is gathered into a
    project list from which pages are written."""
    py = ctx.py
    from . import c05
    base = py.func("FortranBase.get_dir")
    tuples = [n for n in ast.walk(base) if isinstance(n, ast.Call) and isinstance(n.func, ast.Name)
              and n.func.id == "isinstance" and isinstance(n.args[1], ast.Tuple)]
    nested = [t for t in tuples if ast.unparse(t.args[0]) == "self" and any(
        isinstance(e, ast.Name) and e.id == "FortranType" for e in t.args[1].elts)]
    parents = [t for t in tuples if ast.unparse(t.args[0]) == "self.parent"]
    if not nested or not parents:
        raise AnalysisError("FortranBase.get_dir: nested-entity rule not found")
    pageable = [e.id for e in nested[0].args[1].elts if isinstance(e, ast.Name)]
    # the classes of parent under which such an entity has a page of its own: every concrete container class for which the
    # tests on `self.parent` along the path to `return self.obj` can hold (class tuples, base classes and negations alike)
    gev = [e for e in astq.trace(base) if e.kind == "return" and e.value is not None and ast.unparse(e.value) == "self.obj"]
    concrete = sorted(c for c, ci in py.classes.items() if ci.module == "sourceform" and c.startswith("Fortran")
                      and py.is_subclass(c, "FortranContainer") and c not in ("FortranContainer", "FortranCodeUnit", "FortranProcedure"))

    def parent_atom_for(cls):
        def atom(x):
            if isinstance(x, ast.Call) and call_name(x) == "isinstance" and len(x.args) == 2 and ast.unparse(x.args[0]) == "self.parent":
                ks = x.args[1].elts if isinstance(x.args[1], ast.Tuple) else [x.args[1]]
                names = [ast.unparse(k) for k in ks]
                if all(k in py.classes for k in names):
                    return ("yes", True) if any(py.is_subclass(cls, k) for k in names) else ("no", True)
            if isinstance(x, ast.Call) and call_name(x) == "isinstance" and len(x.args) == 2 and ast.unparse(x.args[0]) == "self":
                # the entity asked about is one of the nested kinds (a derived type, say), not a unit that always has a page
                ks = x.args[1].elts if isinstance(x.args[1], ast.Tuple) else [x.args[1]]
                names = [ast.unparse(k) for k in ks]
                if all(k in py.classes for k in names):
                    return ("yes", True) if any(py.is_subclass("FortranType", k) for k in names) else ("no", True)
            return None
        return atom
    parent_classes = [c for c in concrete
                      if any(astq.event_fires(e, parent_atom_for(c), {"yes": True, "no": False}) is not False for e in gev[-1:])]
    # (through the overrides of get_dir as well: a class that names a directory of its own whatever its parent is makes every
    # kind of parent "page-giving")
    for c in concrete:
        if c not in parent_classes and any(class_has_page(py, k, c) is True for k in pageable if k in py.classes):
            parent_classes.append(c)
    if not parent_classes:
        parent_classes = [e.id for e in parents[0].args[1].elts if isinstance(e, ast.Name)]
    lists = sorted(l for l, c in c05.LIST_ELEM.items() if any(py.is_subclass(c, p) for p in pageable))
    fn = py.func("Project.correlate")
    cont = None
    for n in ast.walk(fn):
        if isinstance(n, ast.Assign) and ast.unparse(n.targets[0]) == "CONTAINERS" and isinstance(n.value, ast.Dict):
            cont = {k.value: v.value for k, v in zip(n.value.keys, n.value.values)}
    if cont is None:
        raise AnalysisError("Project.correlate: CONTAINERS not found")
    gather = [n for n in ast.walk(fn) if isinstance(n, ast.For) and "CONTAINERS.items()" in ast.unparse(n.iter)]
    unit_loop = py.parents[gather[0]] if gather else None
    units_txt = ast.unparse(unit_loop.iter) if isinstance(unit_loop, ast.For) else ""
    epm = entity_page_map(py)
    unit_attr = {"FortranModule": "modules", "FortranSubmodule": "submodules", "FortranProgram": "programs",
                 "FortranBlockData": "blockdata"}
    for pc in parent_classes:
        if pc not in unit_attr and pc != "FortranSourceFile":
            rep.ob(f"members of {pc} have pages only if the project gathers them", False,
                   f"get_dir() gives {pageable} declared in a {pc} a page URL of their own, but pages are made from the lists that "
                   f"Project.correlate gathers from {sorted(unit_attr.values())} only: every link to such an entity dangles "
                   f"(it is rendered on the page of the {pc}, under an anchor)", py.nloc(base))
    for ucls, attr in unit_attr.items():
        if ucls not in parent_classes:
            continue
        ok_units = f"sfile.{attr}" in units_txt
        owned = all_self_attrs(py, ucls)
        for l in lists:
            if l not in owned:
                continue
            ok = ok_units and l in cont and cont[l] in epm
            rep.ob(f"{ucls}.{l} gathered into a paged project list", ok,
                   f"CONTAINERS[{l!r}] = {cont.get(l)!r}, pages are created for project.{cont.get(l)}" if ok else
                   (f"get_dir() gives members of {ucls}.{l} their own page URL and the templates link to it, but "
                    f"Project.correlate does not gather `{l}` of {attr} into a project list that Documentation turns into "
                    f"pages (CONTAINERS keys: {sorted(cont)}; units iterated: {units_txt}): the links dangle"),
                   py.nloc(gather[0]) if gather else py.nloc(fn))
    # child entities that always have their own page (first isinstance tuple of get_dir): gathered from every owner
    always = [[e.id for e in t.args[1].elts if isinstance(e, ast.Name)] for t in tuples
              if ast.unparse(t.args[0]) == "self" and t is not nested[0]]
    always = always[0] if always else []
    child_lists = sorted(l for l, c in c05.LIST_ELEM.items() if c in always)
    if not child_lists:
        raise AnalysisError("get_dir: no child list of an always-paged class (namelists) found")
    unit_iter = {"FortranModule": "modules", "FortranSubmodule": "submodules", "FortranProgram": "programs",
                 "FortranFunction": "functions", "FortranSubroutine": "subroutines", "FortranBlockData": "blockdata"}
    ROUTINE_CLASSES = ["FortranFunction", "FortranSubroutine", "FortranModuleProcedureImplementation"]
    iter_class = {v: k for k, v in unit_iter.items()}
    for l in child_lists:
        owners = [c for c in py.classes if c.startswith("Fortran") and c not in ("FortranBase", "FortranContainer", "FortranCodeUnit", "FortranProcedure", "FortranSourceFile")
                  and l in all_self_attrs(py, c)]
        if not owners:
            raise AnalysisError(f"no owner class for {l}")
        covered: Dict[str, str] = {}
        nregs = 0
        where = None
        for host in (py.func("Project._fortran_file"), fn):
            loopvar: Dict[str, str] = {}
            for loop in ast.walk(host):
                if isinstance(loop, ast.For) and isinstance(loop.target, ast.Name):
                    loopvar[loop.target.id] = ast.unparse(loop.iter)

            def classes_of(expr: ast.AST) -> List[str]:
                """classes an expression handed to the registration can denote"""
                t = ast.unparse(expr)
                it = loopvar.get(t, "")
                out = []
                for attr in re.findall(r"\b(?:new_file|sfile|self)\.(\w+)\b", it):
                    if attr in iter_class:
                        out.append(iter_class[attr])
                if re.search(r"\.routines\b", it):
                    out += ROUTINE_CLASSES
                # `<x>.iterator("functions", "modprocedures", ...)`: the element classes of the named lists
                for lst in re.findall(r"['\"](\w+)['\"]", it):
                    if lst in c05.LIST_ELEM and ".iterator(" in it:
                        out.append(c05.LIST_ELEM[lst])
                return out

            for c in py.walk_calls(host):
                if call_name(c) not in (f"self.{l}.extend", f"self.{l}.append") or not c.args:
                    continue
                nregs += 1
                where = where or c
                h = py.enclosing_function(c)
                src = c.args[0]
                # what is read: <x>.namelists or getattr(<x>, 'namelists', ...)
                m = re.match(rf"getattr\((\w+), '{l}'|(\w+)\.{l}\b", ast.unparse(src))
                if not m:
                    continue
                x = m.group(1) or m.group(2)
                if h is host:
                    for k in classes_of(ast.Name(id=x)):
                        covered.setdefault(k, loopvar.get(x, ""))
                    continue
                # registration inside a local helper h(x): look at its call sites
                # the helper calls itself for the members of some lists of its argument: those members' classes are covered too
                rec_lists: Set[str] = set()
                for lp in ast.walk(h):
                    if isinstance(lp, ast.For) and any(call_name(k) == h.name for k in py.walk_calls(lp)):
                        for a in ast.walk(lp.iter):
                            if isinstance(a, ast.Attribute) and a.attr == "routines":
                                rec_lists |= {"functions", "subroutines", "modprocedures"}
                            elif isinstance(a, ast.Attribute) and a.attr in c05.LIST_ELEM:
                                rec_lists.add(a.attr)
                            elif isinstance(a, ast.Constant) and a.value in c05.LIST_ELEM:
                                rec_lists.add(a.value)
                recurse = bool(rec_lists)
                for k in py.walk_calls(host):
                    if call_name(k) == h.name and k.args and not any(y is k for y in ast.walk(h)):
                        for cl in classes_of(k.args[0]):
                            covered.setdefault(cl, loopvar.get(ast.unparse(k.args[0]), ""))
                if recurse and covered:
                    for cl in sorted({c05.LIST_ELEM[x] for x in rec_lists}):
                        covered.setdefault(cl, f"recursion into {sorted(rec_lists)}")
        for o in sorted(owners):
            ok = l in epm and o in covered
            rep.ob(f"{o}.{l} gathered into a paged project list", ok,
                   f"registered (iterating {covered.get(o)})" if ok else
                   f"members of {o}.{l} link to their own page (get_dir() is unconditional for {c05.LIST_ELEM[l]}) but neither "
                   f"Project._fortran_file nor Project.correlate registers the {l} of a {o} into project.{l} (registered for: "
                   f"{sorted(covered)}): the page is never written and the links dangle",
                   py.nloc(where) if where is not None else py.nloc(fn))
    # top-level procedures and units are registered at parse time
    ffn = py.func("Project._fortran_file")
    filled = {c.func.value.attr for c in py.walk_calls(ffn) if isinstance(c.func, ast.Attribute) and c.func.attr in ("append", "extend")
              and isinstance(c.func.value, ast.Attribute) and ast.unparse(c.func.value.value) == "self" and c.args}
    filled |= {t.attr for st in ast.walk(ffn) if isinstance(st, ast.AugAssign) for t in [st.target]
               if isinstance(t, ast.Attribute) and ast.unparse(t.value) == "self"}
    for lst in ("modules", "submodules", "procedures", "programs", "blockdata", "files"):
        ok = lst in filled and (lst in epm or lst == "files")
        rep.ob(f"top-level {lst} registered and paged", ok, "", "ford/fortran_project.py", nontrivial=False)
    _gather_recursion_covers_displayed_procedures(ctx, rep)



def r9_canonical_paths(ctx, rep):
    """relurl replaces the resolved absolute output path by a relative one; that only matches when project_url /
    output_dir were canonical to begin with - shared with C19.R3"""
    from . import c19
    c19.r3_resolved_paths(ctx, rep)


def r10_graph_links(ctx, rep):
    """graph links (SVG nodes and table-form graphs) use the prepared, depth-prefixed and visibility-gated
    attribs['URL'] - shared with C05.R5"""
    from . import c05
    c05.r5_graph_links_and_constructor(ctx, rep)

def r11_visible_after_filter(ctx, rep):
    """entities removed by the display filter are not left `visible` (their pages are not written): see C05.R2"""
    from . import c05
    c05._visible_after_filter(ctx, rep)


def r12_memo(ctx, rep):
    """a cached link is only reused where it was made for: the relative URL depends on the depth of the page (shared with
    C11.R9 / C17.R7)"""
    from . import c11
    c11.r9_memo(ctx, rep)


def r12_page_iteration(ctx, rep):
    """every static page that the navigation links to is written (shared with C17.R12)"""
    from . import c17
    c17.r12_page_iteration_reaches_every_depth(ctx, rep)


RULES = [
    RuleSpec("C09.R7", r7_pageable_entities_get_pages, "entities that have a page URL get a page", floor=12),
    RuleSpec("C09.R8", r8_anchor_targets_exist, "anchors of linkable members are emitted unconditionally", floor=16),
    RuleSpec("C09.R1", r1_list_pages, "list-page / singular-link guard implies page creation", floor=7),
    RuleSpec("C09.R2", r2_anchors, "sidebar anchor use implies anchor definition", floor=30),
    RuleSpec("C09.R3", r3_relurl, "link-bearing values pass relurl", floor=25),
    RuleSpec("C09.R4", r4_depth, "literal ../ only on depth-1 pages", floor=2),
    RuleSpec("C09.R5", r5_dirs, "directories and page names agree", floor=15),
    RuleSpec("C09.R6", r6_graph_urls, "links only to visible entities", floor=1),
    RuleSpec("C09.R9", r9_canonical_paths, "configured paths are canonical (shared with C19.R3)", floor=1),
    RuleSpec("C09.R10", r10_graph_links, "graph links go through the prepared node URL (shared with C05.R5)", floor=2),
    RuleSpec("C09.R11", r11_visible_after_filter, "collection members are marked visible only after the display filter (shared with C05.R2)", floor=1),
    RuleSpec("C09.R12", r12_memo, "no cached link outlives the page depth it was computed for (shared with C11.R9)", floor=1),
    RuleSpec("C09.R13", r12_page_iteration, "iterating the page tree reaches every depth (shared with C17.R12)", floor=1),
]
