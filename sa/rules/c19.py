"""C19 — a run touches nothing outside its output directory (who-may-write rule)."""
from __future__ import annotations

import ast
from typing import Dict, List, Optional, Set, Tuple

from ..core import AnalysisError, RuleSpec
from ..prov import Resolver, Prov
from ..pymodel import call_name
from .. import astq

EXPLANATION = (
    "Who-may-write analysis over ford/*.py. R1 enumerates every call of a file-system mutating API "
    "(Path.mkdir/unlink/write_*/touch/rename, shutil.*, open(..,'w'), Digraph.render and the local "
    "copytree wrapper) by resolved callee and proves, by path-provenance dataflow (locals, self.X set "
    "in constructors, properties incl. subclass overrides, parameters through their call sites, "
    "process_map fan-out), that the destination is ROOT(output_dir|graph_dir)/component/... with "
    "every component path-safe; anything not understood is reported, not assumed. R2: no mutating "
    "site is reachable from initialize()/parsing/correlation/markdown, and in run() initialize() "
    "(which contains the source-inside-output refusal after path normalisation) precedes main(). "
    "R3: the refusal compares symlink-resolved paths. R4: trees that are touched recursively are "
    "copied without preserving symlinks. R5: page-tree relative locations come only from directory "
    "listings. Because R1 is a statement about every mutating call it covers every prefix of every "
    "execution (crash points) without extra machinery. External preprocessor commands and races are "
    "out of scope."
    ' R6: page-tree locations are lexical joins below page_dir; ordered_subpage / copy_subdir entries cannot leave it (sanitiser idioms are recognised, element provenance of the page names is computed through helper functions).'
    " Added after waves 6/7 - every path option is normalised before it is compared; `with_name` on the output root is a sibling (unsafe)."
)
ASSUMPTIONS = [
    "the set of mutating APIs is the reviewed list MUTATORS below (extended if a new module is imported: imports of os/shutil/pathlib/tempfile members are enumerated)",
    "entity ident contains no path separator (C10.R3)",
]

# attribute-call name -> which operand is written ('recv' = receiver, 'argN')
MUTATING_METHODS = {
    "mkdir": ["recv"], "unlink": ["recv"], "write_text": ["recv"], "write_bytes": ["recv"],
    "touch": ["recv"], "rename": ["recv", "arg0"], "replace_": [], "rmdir": ["recv"],
    "symlink_to": ["recv"], "hardlink_to": ["recv"], "chmod": ["recv"], "render": ["arg0"],
}
MUTATING_FUNCS = {
    "shutil.rmtree": ["arg0"], "shutil.copy": ["arg1"], "shutil.copy2": ["arg1"],
    "shutil.copyfile": ["arg1"], "shutil.move": ["arg0", "arg1"], "shutil.copytree": ["arg1"],
    "os.remove": ["arg0"], "os.unlink": ["arg0"], "os.mkdir": ["arg0"], "os.makedirs": ["arg0"],
    "os.rename": ["arg0", "arg1"], "os.replace": ["arg0", "arg1"], "os.rmdir": ["arg0"],
    "os.symlink": ["arg1"], "os.chmod": ["arg0"], "os.utime": ["arg0"],
}


def mutating_sites(py) -> List[Tuple[ast.Call, ast.AST, str]]:
    """(call, destination expression, api) for every FS-mutating call in the package."""
    out = []
    for mod, tree in py.modules.items():
        if mod == "fixed2free2":
            # stand-alone converter script (`__main__` block reads a file, prints to stdout)
            pass
        for c in ast.walk(tree):
            if not isinstance(c, ast.Call):
                continue
            cn = call_name(c)
            if cn in MUTATING_FUNCS:
                for which in MUTATING_FUNCS[cn]:
                    i = int(which[3:])
                    if i < len(c.args):
                        out.append((c, c.args[i], cn))
                    else:
                        kw = {k.arg: k.value for k in c.keywords}
                        d = kw.get("dst") or kw.get("path")
                        if d is not None:
                            out.append((c, d, cn))
                continue
            if cn in ("open", "codecs.open", "io.open") or cn.endswith(".open"):
                mode = None
                if len(c.args) > 1:
                    mode = c.args[1]
                for k in c.keywords:
                    if k.arg == "mode":
                        mode = k.value
                m = mode.value if isinstance(mode, ast.Constant) else ("r" if mode is None else "?")
                if cn.endswith(".open") and cn not in ("codecs.open", "io.open"):
                    # Path.open(mode): mode is arg0
                    mode = c.args[0] if c.args else None
                    for k in c.keywords:
                        if k.arg == "mode":
                            mode = k.value
                    m = mode.value if isinstance(mode, ast.Constant) else ("r" if mode is None else "?")
                    if any(ch in str(m) for ch in "wax+?"):
                        out.append((c, c.func.value, cn))
                    continue
                if any(ch in str(m) for ch in "wax+?") and c.args:
                    out.append((c, c.args[0], "open(" + str(m) + ")"))
                continue
            if isinstance(c.func, ast.Attribute) and c.func.attr in MUTATING_METHODS:
                recv = ast.unparse(c.func.value)
                # not a path: dict.rename etc. do not exist in this code base; `render` only on Digraph
                if c.func.attr == "render" and "dot" not in recv:
                    continue
                if c.func.attr == "replace_":
                    continue
                for which in MUTATING_METHODS[c.func.attr]:
                    if which == "recv":
                        out.append((c, c.func.value, "." + c.func.attr))
                    else:
                        i = int(which[3:])
                        if i < len(c.args):
                            out.append((c, c.args[i], "." + c.func.attr))
    return out


def site_key(py, c: ast.Call, api: str, dest: ast.AST) -> str:
    fn = py.enclosing_function(c)
    q = py.qualname(fn) if fn is not None else py.module_of(c)
    return f"{q} {api} dest={ast.unparse(dest)[:70]}"


def pagetree_names_trusted(py) -> Tuple[bool, str, ast.AST]:
    """In get_page_tree, is every name joined to the directory (`topdir / name`) drawn from the directory listing only?
    Decided by the element-provenance analysis (helper functions, membership filters and de-duplication are followed)."""
    fn = py.func("pagetree.get_page_tree")
    loop = None
    for n in ast.walk(fn):
        if isinstance(n, ast.For) and isinstance(n.target, ast.Name) and any(
                isinstance(b, ast.BinOp) and isinstance(b.op, ast.Div) and isinstance(b.right, ast.Name)
                and b.right.id == n.target.id for st in n.body for b in ast.walk(st)):
            loop = n
    if loop is None:
        raise AnalysisError("get_page_tree: the loop that joins `<dir> / <name>` was not found")
    src = astq.ElemSources(py, "pagetree").sources(loop.iter, fn)
    if not src:
        raise AnalysisError("get_page_tree: no source found for the page names")
    bad = sorted(x for x in src if x != "LISTING")
    if bad:
        return False, f"page file names also come from {bad} (page metadata `ordered_subpage`)", loop
    return True, "names come from the directory listing only", loop


def r1_write_provenance(ctx, rep):
    py = ctx.py
    res = Resolver(py)
    sites = mutating_sites(py)
    trusted, why, node = pagetree_names_trusted(py)
    rep.ob("page-tree file names come from the directory listing only", trusted,
           ("PageNode.location/.path are relative paths below page_dir" if trusted else
            f"in get_page_tree {why}: a name such as '../../x.md' makes PageNode.location leave the page "
            f"directory, and every write keyed by it (page html, copied files) leaves output_dir"),
           py.nloc(node))
    trusted, why = True, ""   # the dependent sites are judged under that (separately reported) premise
    # local wrappers: a module-level function whose parameter is the destination of a mutating call
    wrappers: Dict[str, int] = {}
    for c, dest, api in sites:
        fn = py.enclosing_function(c)
        if fn is not None and py.enclosing_class(c) is None and isinstance(dest, ast.Name):
            params = [a.arg for a in fn.args.args]
            if dest.id in params:
                wrappers[fn.name] = params.index(dest.id)
    for mod, tree in py.modules.items():
        for c in ast.walk(tree):
            if isinstance(c, ast.Call) and isinstance(c.func, ast.Name) and c.func.id in wrappers:
                i = wrappers[c.func.id]
                if i < len(c.args):
                    sites.append((c, c.args[i], f"{c.func.id}()"))
    for c, dest, api in sites:
        fn = py.enclosing_function(c)
        if fn is None:
            rep.ob(site_key(py, c, api, dest), False, "mutating call at module level", py.nloc(c))
            continue
        if py.module_of(c) == "fixed2free2" and fn.name in ("main",) and False:
            continue
        cls = py.enclosing_class(c)
        if fn.name in wrappers and cls is None and api != f"{fn.name}()":
            rep.ob(site_key(py, c, api, dest), True,
                   f"inside the local wrapper {fn.name}(): judged at each of its call sites", py.nloc(c),
                   nontrivial=False)
            continue
        # page-tree locations: self.obj.location / self.obj.path inside PagetreePage
        p = resolve_with_pagetree(res, py, dest, fn, cls, trusted, why)
        ok = p.kind == "PATH" and p.root in ("OUT", "GRAPH")
        if ok and api.endswith("rmtree") and p.root != "OUT":
            # a whole directory is removed: only the output directory may be treated like that - it is the one the user is told
            # is rebuilt on every run, and the one the "source directory inside it" refusal protects
            rep.ob(site_key(py, c, api, dest), False,
                   f"`{ast.unparse(dest)}` ({p}) is removed recursively, but it is not (below) the output directory: `graph_dir` is a "
                   f"directory the user names for FORD to add files to - nothing checks that it does not hold sources or other files",
                   py.nloc(c))
            continue
        rep.ob(site_key(py, c, api, dest), ok,
               (f"destination = {p}" if ok else
                f"destination `{ast.unparse(dest)}` is not provably below the output/graph directory: {p.why or p}"),
               py.nloc(c))


class _PT(ast.NodeTransformer):
    pass


def resolve_with_pagetree(res: Resolver, py, dest, fn, cls, trusted: bool, why: str) -> Prov:
    # teach the resolver about PageNode attributes reached through self.obj
    orig = res._res

    def patched(e, fn2, cls2, binds):
        if isinstance(e, ast.Attribute) and ast.unparse(e.value) == "self.obj" and \
                e.attr in ("location", "path") and cls2 and py.is_subclass(cls2, "PagetreePage"):
            if trusted:
                return Prov("PATH", "REL", [f"<page {e.attr}: relpath below page_dir>"])
            return Prov("UNSAFE", why=f"PageNode.{e.attr} is relative to the page directory only if page "
                                      f"file names come from the directory listing; {why}")
        return orig(e, fn2, cls2, binds)
    res._res = patched  # type: ignore
    try:
        return res.resolve(dest, fn, cls, {})
    finally:
        res._res = orig  # type: ignore


# ------------------------------------------------------------------------------ R2
def external_names(py, mod: str) -> Set[str]:
    """names bound in module `mod` to things imported from outside the ford package."""
    out: Set[str] = set()
    for st in ast.walk(py.modules[mod]):
        if isinstance(st, ast.Import):
            for a in st.names:
                if not a.name.startswith("ford"):
                    out.add((a.asname or a.name).split(".")[0])
        elif isinstance(st, ast.ImportFrom):
            if st.level == 0 and not (st.module or "").startswith("ford"):
                for a in st.names:
                    out.add(a.asname or a.name)
    return out


_SCALAR_CALLS = {"int", "len", "float", "str", "find", "rfind", "index", "count", "lower", "upper", "strip", "group", "start", "end", "span",
                 "ord", "abs", "round", "sum", "join", "format", "as_posix", "fspath"}
_SCALAR_COLLECTION_CALLS = {"keys", "split", "splitlines", "listdir", "glob", "rglob", "iterdir", "findall", "range", "find_all_files"}


def _scalar_expr(e: ast.AST, fn: ast.AST, depth: int = 3) -> bool:
    """visibly a number / string / path (never an entity object)"""
    if isinstance(e, (ast.Constant, ast.JoinedStr)):
        return True
    if isinstance(e, ast.Call):
        return call_name(e).split(".")[-1] in _SCALAR_CALLS
    if isinstance(e, ast.BinOp):
        return _scalar_expr(e.left, fn, depth) and _scalar_expr(e.right, fn, depth)
    if isinstance(e, ast.Name) and depth > 0:
        vals = [v for _t, v in astq.assignments(fn, e.id) if v is not None]
        return bool(vals) and all(_scalar_expr(v, fn, depth - 1) for v in vals)
    if isinstance(e, ast.Attribute) and depth > 0 and isinstance(e.value, ast.Name) and e.value.id == "self":
        vals = [v for _t, v in astq.assignments(fn, ast.unparse(e)) if v is not None]
        return bool(vals) and all(_scalar_expr(v, fn, depth - 1) for v in vals)
    return False


def _scalar_collection(e: ast.AST, fn: ast.AST, _seen: Optional[Set[str]] = None) -> bool:
    """a collection whose elements are visibly numbers / strings / paths"""
    _seen = set() if _seen is None else _seen
    if isinstance(e, (ast.List, ast.Tuple, ast.Set)):
        return all(_scalar_expr(x, fn) for x in e.elts)
    if isinstance(e, ast.Call):
        last = call_name(e).split(".")[-1]
        if last in _SCALAR_COLLECTION_CALLS:
            return True
        if last in ("list", "set", "tuple", "sorted") and len(e.args) == 1:
            return _scalar_collection(e.args[0], fn, _seen)
        return False
    if isinstance(e, (ast.ListComp, ast.SetComp, ast.GeneratorExp)):
        return _scalar_expr(e.elt, fn)
    if isinstance(e, ast.Name):
        if e.id in _seen:
            return True           # x = sorted(x): decided by the other sources of x
        _seen.add(e.id)
        vals = [v for _t, v in astq.assignments(fn, e.id) if v is not None]
        adds = [c.args[0] for c in ast.walk(fn) if isinstance(c, ast.Call) and isinstance(c.func, ast.Attribute) and
                c.func.attr in ("append", "add") and isinstance(c.func.value, ast.Name) and c.func.value.id == e.id and c.args]
        return bool(vals) and all(_scalar_collection(v, fn, _seen) for v in vals) and all(_scalar_expr(a, fn) for a in adds)
    return False


def simple_call_graph(py) -> Dict[str, Set[str]]:
    """qualname -> set of simple callee names (over-approximate: by last name component; calls
    whose receiver chain starts at a name imported from outside the package are dropped)."""
    g: Dict[str, Set[str]] = {}
    ext = {m: external_names(py, m) for m in py.modules}
    for mod, fn in py.all_functions():
        names = set()
        for c in py.walk_calls(fn):
            n = call_name(c)
            if not n:
                continue
            root = n.split(".")[0].replace("()", "")
            if root in ext[mod]:
                continue
            last = n.split(".")[-1].replace("()", "")
            cls = py.enclosing_class(fn)
            if isinstance(c.func, ast.Name) or root == "ford":
                names.add("f:" + last)     # module-level function or class
            elif isinstance(c.func, ast.Attribute) and isinstance(c.func.value, ast.Call) and \
                    call_name(c.func.value) == "super" and cls:
                r = py.resolve_method(cls, last, after=cls)
                if r:
                    names.add(f"q:{py.classes[r[0]].module}.{r[0]}.{last}")
            elif isinstance(c.func, ast.Attribute) and isinstance(c.func.value, ast.Name) and \
                    c.func.value.id in py.classes and last in py.classes[c.func.value.id].methods:
                k = c.func.value.id
                names.add(f"q:{py.classes[k].module}.{k}.{last}")
            elif isinstance(c.func, ast.Attribute) and isinstance(c.func.value, ast.Name) and \
                    c.func.value.id == "self" and cls:
                hit = False
                for k in set(py.mro(cls)) | set(py.subclasses(cls)):
                    if k in py.classes and last in py.classes[k].methods:
                        names.add(f"q:{py.classes[k].module}.{k}.{last}")
                        hit = True
                if not hit:
                    names.add("m:" + last)
            else:
                names.add("m:" + last)     # method of some class
        # ordering without a key calls the elements' rich comparison: sorted(xs), min(xs), max(xs), xs.sort() -> __lt__
        # (not when the elements are visibly numbers or strings)
        for c in py.walk_calls(fn):
            n = call_name(c) or ""
            if not (n in ("sorted", "min", "max") or (isinstance(c.func, ast.Attribute) and c.func.attr == "sort" and not c.args)):
                continue
            if any(k.arg == "key" for k in c.keywords):
                continue
            subj = list(c.args) if n in ("sorted", "min", "max") else [c.func.value]
            if len(subj) == 1 and _scalar_collection(subj[0], fn) or len(subj) > 1 and all(_scalar_expr(a, fn) for a in subj):
                continue
            names.add("m:__lt__")
        # property reads that trigger code: `.html`, `.outfile`, `.ident` ... (attribute loads)
        for a in ast.walk(fn):
            if isinstance(a, ast.Attribute) and isinstance(a.ctx, ast.Load):
                names.add("@" + a.attr)
        g[py.qualname(fn)] = names
    return g


def r2_reachability(ctx, rep):
    py = ctx.py
    sites = mutating_sites(py)
    site_fns = {}
    for c, dest, api in sites:
        fn = py.enclosing_function(c)
        if fn is not None:
            site_fns.setdefault(py.qualname(fn), fn)
    g = simple_call_graph(py)
    by_simple: Dict[str, List[str]] = {}
    props: Dict[str, List[str]] = {}
    for q in g:
        parts = q.split(".")
        is_method = len(parts) >= 3 and parts[-2] in py.classes
        by_simple.setdefault(("m:" if is_method else "f:") + parts[-1], []).append(q)
    for cname, ci in py.classes.items():
        for p in ci.properties:
            props.setdefault(p, []).append(f"{ci.module}.{cname}.{p}")
        # constructors are called by class name
        if "__init__" in ci.methods:
            by_simple.setdefault("f:" + cname, []).append(f"{ci.module}.{cname}.__init__")

    def reach(starts: List[str]) -> Set[str]:
        seen: Set[str] = set()
        todo = list(starts)
        while todo:
            q = todo.pop()
            if q in seen or q not in g:
                continue
            seen.add(q)
            for n in g[q]:
                if n.startswith("@"):
                    todo.extend(props.get(n[1:], []))
                elif n.startswith("q:"):
                    todo.append(n[2:])
                else:
                    todo.extend(by_simple.get(n, []))
        return seen

    pre_main = ["__init__.initialize", "__init__.parse_arguments", "__init__.load_settings",
                "fortran_project.Project.__init__", "fortran_project.Project.correlate",
                "fortran_project.Project.markdown", "output.Documentation.__init__",
                "pagetree.get_page_tree"]
    for s in pre_main:
        if s not in g:
            raise AnalysisError(f"anchor function {s} not found")
    for s in pre_main:
        r = reach([s])
        hit = sorted(q for q in site_fns if q in r)
        # writeout methods share their simple name with nothing called on those paths; report any hit
        rep.ob(f"no-mutation-reachable-from {s}", not hit,
               (f"{len(r)} functions reachable (by-name over-approximation), none contains a file-system "
                f"mutating call" if not hit else
                f"file-system mutating function(s) {hit} are reachable before/outside the write-out phase"),
               py.nloc(py.func(s.split('.', 1)[1]) if py.has_func(s.split('.', 1)[1]) else py.modules[s.split('.')[0]]))
    # run(): initialize() before main()
    run = py.func("__init__.run")
    order = [call_name(c) for st in run.body for c in py.walk_calls(st)]
    ok = "initialize" in order and "main" in order and order.index("initialize") < order.index("main")
    rep.ob("run(): initialize dominates main", ok, "run() calls initialize() (refusal inside) before main()"
           if ok else f"run() call order is {order}", py.nloc(run))
    # parse_arguments: normalise_paths before the refusal; refusal raises
    pa = py.func("__init__.parse_arguments")
    norm_line = min([c.lineno for c in py.walk_calls(pa) if call_name(c).endswith("normalise_paths")] or [0])
    refusal = None
    for n in ast.walk(pa):
        if isinstance(n, ast.For) and "src_dir" in ast.unparse(n.iter):
            for r in ast.walk(n):
                if isinstance(r, ast.Raise):
                    refusal = n
    ok = refusal is not None and 0 < norm_line < refusal.lineno
    rep.ob("parse_arguments: refusal after normalise_paths", ok,
           "source-inside-output refusal raises, after paths were normalised" if ok else
           "refusal loop over src_dir missing, not raising, or placed before normalise_paths",
           py.nloc(refusal) if refusal is not None else py.nloc(pa))
    if refusal is not None:
        var = ast.unparse(refusal.target)

        def atom(n):
            """'eq' (output_dir == srcdir), 'anc' (output_dir among srcdir's parents), 'both' - however they are spelled"""
            if isinstance(n, ast.Compare) and len(n.ops) == 1:
                l, r = ast.unparse(n.left), n.comparators[0]
                rt = ast.unparse(r)
                if isinstance(n.ops[0], (ast.In, ast.NotIn)) and "output_dir" in l:
                    pol = isinstance(n.ops[0], ast.In)
                    anc = f"{var}.parents" in rt
                    eq = isinstance(r, (ast.Tuple, ast.List, ast.Set)) and any(ast.unparse(e2) == var for e2 in r.elts)
                    if eq or anc:
                        return ("both" if eq and anc else "eq" if eq else "anc", pol)
                if isinstance(n.ops[0], (ast.Eq, ast.NotEq)) and {l.split(".")[-1], rt.split(".")[-1]} & {"output_dir"} and var in (l, rt):
                    return ("eq", isinstance(n.ops[0], ast.Eq))
            if isinstance(n, ast.Call) and isinstance(n.func, ast.Attribute) and n.func.attr == "is_relative_to" and \
                    ast.unparse(n.func.value) == var and n.args and "output_dir" in ast.unparse(n.args[0]):
                return ("both", True)
            if isinstance(n, ast.Compare) and any(isinstance(x, ast.Call) and call_name(x).endswith("commonpath") for x in ast.walk(n)) \
                    and "output_dir" in ast.unparse(n) and var in ast.unparse(n):
                return ("both", isinstance(n.ops[0], ast.Eq))
            return None
        # the raise events of the loop, with the conditions under which they run (early `continue`s included): the refusal
        # must fire when the directories are equal and when output_dir is an ancestor, and not when they are unrelated
        evs = [e for e in astq.trace_block([refusal], pa) if e.kind == "raise"]
        cases = {"equal": {"eq": True, "anc": False, "both": True}, "ancestor": {"eq": False, "anc": True, "both": True},
                 "unrelated": {"eq": False, "anc": False, "both": False}}
        covered = {k: False for k in ("equal", "ancestor")}
        texts = []
        for e in evs:
            fires = {k: astq.event_fires(e, atom, env) for k, env in cases.items()}
            texts.append(e.cond_texts())
            if fires["unrelated"] is False:
                for k in covered:
                    covered[k] = covered[k] or fires[k] is True
        ok = all(covered.values())
        rep.ob("refusal predicate", ok, "refuses when output_dir equals or is an ancestor of a source directory"
               if ok else "the refusal " + ("does not cover output_dir == source directory" if not covered["equal"] else
                                            "does not cover output_dir being an ancestor of the source directory") +
               f" (raised under: {texts}): FORD deletes the sources when it rebuilds the output directory",
               py.nloc(refusal))
    # main(): writeout is the first mutating step and comes after Project/correlate/markdown
    main = py.func("__init__.main")
    seq = [call_name(c).split(".")[-1] for st in main.body for c in py.walk_calls(st)]
    need = ["Project", "correlate", "markdown", "Documentation", "writeout"]
    idx = [seq.index(n) if n in seq else -1 for n in need]
    ok = all(i >= 0 for i in idx) and idx == sorted(idx)
    rep.ob("main(): writeout last", ok, f"main() order {need}" if ok else f"main() order is {seq}", py.nloc(main))
    if "dump_modules" in seq:
        ok = seq.index("dump_modules") > seq.index("writeout")
        rep.ob("main(): dump_modules after writeout", ok,
               "modules.json is written after the output directory was rebuilt", py.nloc(main))


# ------------------------------------------------------------------------------ R3 / R4
def r3_resolved_paths(ctx, rep):
    py = ctx.py
    fn = py.func("utils.normalise_path")
    rets = [n.value for n in ast.walk(fn) if isinstance(n, ast.Return) and n.value is not None]
    if not rets:
        raise AnalysisError("normalise_path has no return")
    for r in rets:
        t = ast.unparse(r)
        ok = ".resolve()" in t or "realpath" in t
        rep.ob("normalise_path resolves symlinks", ok,
               "paths compared by the refusal are symlink-resolved (Path.resolve / realpath)" if ok else
               f"normalise_path returns `{t}`: symbolic links are not resolved, so a source directory that "
               f"is a link into the output directory passes the purely lexical refusal and is deleted",
               py.nloc(r))
    # every Path-typed settings field goes through normalise_path
    np = py.func("ProjectSettings.normalise_paths")
    t = ast.unparse(np)
    ok = "normalise_path(" in t and "get_type_hints" in t
    rep.ob("normalise_paths generic over path-typed fields", ok,
           "normalise_paths loops over the schema's type hints and normalises every Path field" if ok else
           "normalise_paths no longer treats the path-typed fields generically", py.nloc(np))


def r4_no_symlink_preserving_copy(ctx, rep):
    py = ctx.py
    n = 0
    for mod, tree in py.modules.items():
        for c in ast.walk(tree):
            if isinstance(c, ast.Call) and call_name(c) == "shutil.copytree":
                n += 1
                sym = [k for k in c.keywords if k.arg == "symlinks"]
                ok = not sym or (isinstance(sym[0].value, ast.Constant) and not sym[0].value.value)
                fn = py.enclosing_function(c)
                follows = any(isinstance(x, ast.Call) and isinstance(x.func, ast.Attribute)
                              and x.func.attr in ("touch", "chmod", "write_text", "write_bytes")
                              for x in ast.walk(fn)) if fn is not None else False
                rep.ob(f"shutil.copytree in {py.qualname(fn) if fn else mod}", ok or not follows,
                       "tree is copied with symlinks dereferenced, so the recursive touch stays inside it" if ok else
                       "copytree(symlinks=True) keeps links in the copied tree and the following recursive "
                       "touch()/write follows them to files outside the output directory", py.nloc(c))
    if n == 0:
        raise AnalysisError("no shutil.copytree call found")


def r5_exclude_output(ctx, rep):
    """exclude_dir contains the output directory (a previous run's src/ copies are not re-read)."""
    py = ctx.py
    fn = py.func("ProjectSettings.__post_init__")
    t = ast.unparse(fn)
    ok = "self.exclude_dir.append(self.output_dir)" in t or "exclude_dir" in t and "output_dir" in t
    rep.ob("__post_init__: exclude_dir gets output_dir", ok,
           "the output directory is appended to exclude_dir", py.nloc(fn))
    faf = py.func("fortran_project.find_all_files")
    t = ast.unparse(faf)
    ok = "settings.exclude_dir" in t and "fnmatch" in t
    rep.ob("find_all_files honours exclude_dir", ok, "files under excluded directories are dropped", py.nloc(faf))



def r6_pagetree_lexical(ctx, rep):
    """PageNode.location = relpath(path.parent, topdir) stays below the page directory only if both sides
    are the same lexical joins below page_dir: resolving symbolic links on one side lets a linked
    sub-directory map to a location outside (and hence output outside output_dir)."""
    py = ctx.py
    fn = py.func("pagetree.get_page_tree")
    calls = [c for c in py.walk_calls(fn) if isinstance(c.func, ast.Attribute) and c.func.attr in ("resolve", "absolute")
             or call_name(c) in ("os.path.realpath", "os.path.abspath")]
    rep.ob("get_page_tree joins paths lexically (no symlink resolution)", not calls,
           "topdir and page paths are plain joins below page_dir" if not calls else
           f"`{ast.unparse(calls[0])[:60]}` resolves symbolic links while walking the page tree: PageNode.location "
           f"(relpath to the unresolved top directory) of a linked sub-directory becomes '../../x' and its pages are written "
           f"outside the output directory", py.nloc(calls[0]) if calls else py.nloc(fn))
    pn = py.func("PageNode.__init__")
    locs = [v for _, v in astq.assignments(pn, "self.location") if v is not None]
    rel = [v for v in locs if any(isinstance(c, ast.Call) and call_name(c).split(".")[-1] in ("relpath", "relative_to") for c in ast.walk(v))]
    tops = [v for _, v in astq.assignments(pn, "self.topdir") if v is not None]
    ok = bool(rel) and all("topdir" in ast.unparse(v) and ".parent" in ast.unparse(v) for v in rel) and \
        any(ast.unparse(v).endswith(".parent") and "self." not in ast.unparse(v) for v in tops)
    rep.ob("PageNode.location is relative to the top page directory", ok, "", py.nloc(pn))


def r7_all_paths_normalised(ctx, rep):
    """the refusal to delete a source directory compares canonical paths: every path option goes through the normalisation
    (shared with C15.R4)"""
    from . import c15
    c15.r4_path_rooting(ctx, rep)


RULES = [
    RuleSpec("C19.R6", r6_pagetree_lexical, "page-tree locations are lexical joins below page_dir", floor=1),
    RuleSpec("C19.R1", r1_write_provenance, "every file-system write lands below output_dir/graph_dir", floor=12),
    RuleSpec("C19.R2", r2_reachability, "no mutation before the refusal or outside the write-out phase", floor=6),
    RuleSpec("C19.R3", r3_resolved_paths, "refusal works on symlink-resolved, normalised paths", floor=1),
    RuleSpec("C19.R4", r4_no_symlink_preserving_copy, "recursively touched trees contain no symlinks", floor=1),
    RuleSpec("C19.R5", r5_exclude_output, "output directory excluded from source discovery", floor=1),
    RuleSpec("C19.R7", r7_all_paths_normalised, "every path option is normalised before it is compared (shared with C15.R4)", floor=3),
]
