"""C10 — distinct entities never share a page, anchor or copied file (structural clauses)."""
from __future__ import annotations

import ast
import re
from typing import Dict, List, Optional, Set, Tuple

from ..core import AnalysisError, RuleSpec
from ..pymodel import PyModel, call_name
from .. import astq
from ..prov import Resolver
from . import c19

EXPLANATION = (
    "Rules on the three places that manufacture output names. R1: in NameSelector.get_name the key of "
    "the ~N collision counter must be at least as coarse as the emitted stem: every name-merging "
    "transformation applied to item.name when building the stem (lower-casing, symbol replacement) is "
    "also applied to the counter key, the symbol replacement is an injective table, and counters are "
    "namespaced by the output directory (get_dir()). R2: every per-entity write destination in "
    "output.py is built from the unique `ident`, not from `name`. R3: the stem cannot contain a path "
    "separator and anchors quote the ident. R4: classes that redirect get_dir() also redirect ident "
    "under the same condition, and the registry is one module-level NameSelector. Whether two given "
    "entities collide is a run-time fact and is not decided."
    ' R5: after NameSelector made the identifier unique nothing lossy is applied to it where page names, URLs and anchors are composed - the composing expressions are evaluated symbolically with a placeholder that any case folding or replacement would change.'
    " Added after waves 6/7 - element ids in the templates are the unique anchors (shared with C09.R2/R8)."
)
ASSUMPTIONS = ["str.lower and str.replace are the only name-merging string operations in use"]


def _chain_methods(e: ast.AST) -> Tuple[str, List[str]]:
    """('item.name', ['lower', ...]) for item.name.lower()...."""
    ms: List[str] = []
    while isinstance(e, ast.Call) and isinstance(e.func, ast.Attribute):
        ms.append(e.func.attr)
        e = e.func.value
    return ast.unparse(e), list(reversed(ms))


MERGING = ("lower", "upper", "casefold", "strip", "title", "capitalize", "swapcase")


def r1_counter_key(ctx, rep):
    """Decided on the event trace of NameSelector.get_name with its helper methods inlined: which expressions index the
    two levels of the ~N counter table, which name-merging steps the stem goes through, and how symbols are replaced."""
    py = ctx.py
    fn = py.ifunc("NameSelector.get_name")       # canonical form: loops over literal tables unrolled, reduce() lowered
    ev = astq.trace(fn, astq.class_method_resolver(py, "NameSelector", "sourceform"))
    idx = {id(e): i for i, e in enumerate(ev)}

    def origin(txt: str, before: int, depth: int = 0) -> str:
        """replace a local name by the text of the value it holds (latest assignment before the event)"""
        if depth > 4 or not re.fullmatch(r"[A-Za-z_]\w*", txt):
            return txt
        for e in reversed(ev[:before]):
            if e.kind == "assign" and e.target == txt and e.value is not None and not any(
                    isinstance(n, ast.Name) and n.id == txt for n in ast.walk(e.value)):
                return origin(e.text(e.value), idx[id(e)], depth + 1)
        return txt

    nss: Set[str] = set()
    keys: Set[str] = set()
    aliases: Dict[str, int] = {}
    for e in ev:
        i = idx[id(e)]
        nodes = [e.node] if e.kind != "assign" else [e.node]
        for root in nodes:
            for n in ast.walk(root):
                # first level
                if isinstance(n, ast.Subscript) and e.text(n.value) == "self._counts":
                    nss.add(origin(e.text(n.slice), i))
                if isinstance(n, ast.Call) and isinstance(n.func, ast.Attribute) and e.text(n.func.value) == "self._counts" \
                        and n.func.attr in ("setdefault", "get") and n.args:
                    nss.add(origin(e.text(n.args[0]), i))
                if isinstance(n, ast.Compare) and len(n.ops) == 1 and isinstance(n.ops[0], (ast.In, ast.NotIn)) and \
                        e.text(n.comparators[0]) == "self._counts":
                    nss.add(origin(e.text(n.left), i))
        if e.kind == "assign" and e.value is not None and e.target and re.fullmatch(r"[A-Za-z_]\w*", e.target):
            vt = e.text(e.value)
            if re.match(r"self\._counts(\[|\.setdefault\(|\.get\()", vt):
                aliases[e.target] = i

    def is_table(n: ast.AST, e) -> bool:
        t = e.text(n)
        return bool(re.fullmatch(r"self\._counts\[.*\]", t)) and t.count("[") >= 1 and not t.endswith("]]") or \
            (isinstance(n, ast.Name) and n.id in aliases)
    for e in ev:
        i = idx[id(e)]
        for n in ast.walk(e.node):
            if isinstance(n, ast.Subscript) and is_table(n.value, e):
                keys.add(origin(e.text(n.slice), i))
            if isinstance(n, ast.Call) and isinstance(n.func, ast.Attribute) and n.func.attr in ("get", "setdefault") \
                    and is_table(n.func.value, e) and n.args:
                keys.add(origin(e.text(n.args[0]), i))
            if isinstance(n, ast.Compare) and len(n.ops) == 1 and isinstance(n.ops[0], (ast.In, ast.NotIn)) and is_table(n.comparators[0], e):
                keys.add(origin(e.text(n.left), i))
    if not keys or not nss:
        raise AnalysisError("NameSelector.get_name: counter table accesses not understood")
    ok = nss == {"item.get_dir()"}
    rep.ob("counter namespace", ok,
           "the ~N counters are namespaced by item.get_dir(), the directory the page is written to" if ok else
           f"counter namespace is {sorted(nss)}: entities written into one directory (module/submodule) may be "
           f"counted separately and receive the same stem", py.nloc(fn))
    # the stem: what is stored for the item / returned, traced back to item.name
    stored = [e for e in ev if e.kind == "assign" and e.target and e.target.startswith("self._items[") and e.value is not None]
    if not stored:
        raise AnalysisError("NameSelector.get_name: the identifier is not stored in self._items")
    closure: List[str] = []
    seen: Set[str] = set()
    todo = [stored[-1].text(stored[-1].value)]
    while todo:
        t = todo.pop()
        if t in seen:
            continue
        seen.add(t)
        closure.append(t)
        for nm in set(re.findall(r"\b[A-Za-z_]\w*\b", t)):
            for e in ev:
                if e.kind == "assign" and e.target == nm and e.value is not None:
                    todo.append(e.text(e.value))
                if e.kind == "loop" and nm in (e.target or ""):
                    todo.append(e.text(e.value))
    if not any("item.name" in t for t in closure):
        raise AnalysisError("NameSelector.get_name: the stored identifier is not derived from item.name")
    stem_ops = sorted({m for t in closure for m in re.findall(r"\.(\w+)\(", t) if m in MERGING})
    uses_resub = any(re.search(r"\bre\.sub\(|\.sub\(", t) for t in closure)
    for k in sorted(keys):
        kops = [m for m in re.findall(r"\.(\w+)\(", k) if m in MERGING]
        missing = [m for m in stem_ops if m not in kops]
        ok = not missing and k.startswith("item.name")
        rep.ob(f"counter key `{k}` vs stem", ok,
               ("every name-merging step of the stem is applied to the counter key as well" if ok else
                f"the stem applies {stem_ops} to item.name but the collision counter is keyed by `{k}`: names that "
                f"differ only by that step (e.g. `Init` / `init`) each count as first and get the same file"),
               py.nloc(fn))
    # symbol replacement must be an injective literal table
    env = {**py.module_env("sourceform")}
    cenv = {k: py.const_value("NameSelector", k) for k in py.classes["NameSelector"].class_attrs}
    table = None
    tnode = None
    for e in ev:
        cand = []
        if e.kind == "loop" and e.value is not None:
            cand.append(e.value.func.value if isinstance(e.value, ast.Call) and isinstance(e.value.func, ast.Attribute)
                        and e.value.func.attr == "items" else e.value)
        for n in ast.walk(e.node):
            if isinstance(n, ast.Call) and isinstance(n.func, ast.Attribute) and n.func.attr == "translate" and n.args:
                cand.append(n.args[0])
        for c in cand:
            v = py.eval_const(c, env)
            if v is PyModel._UNKNOWN and isinstance(c, ast.Attribute) and isinstance(c.value, ast.Name) and c.value.id in ("self", "cls", "NameSelector"):
                v = cenv.get(c.attr, PyModel._UNKNOWN)
            if isinstance(v, (list, tuple)) and v and all(isinstance(r_, (list, tuple)) and len(r_) == 2 for r_ in v) and \
                    len({r_[0] for r_ in v}) == len(v):
                v = dict(v)           # a table of (symbol, replacement) pairs
            if isinstance(v, dict) and v:
                table = {(chr(k) if isinstance(k, int) else k): x for k, x in v.items()}
                tnode = c
    if table is None:
        # a chain of literal replacements on the stem (an unrolled loop over a table of pairs)
        pairs = []
        for e in ev:
            if e.kind == "assign" and e.value is not None and isinstance(e.value, ast.Call) and isinstance(e.value.func, ast.Attribute) \
                    and e.value.func.attr == "replace" and len(e.value.args) == 2 and e.text(e.value) in closure:
                a, b = (py.eval_const(x, env) for x in e.value.args)
                if isinstance(a, str) and isinstance(b, str):
                    pairs.append((a, b))
                    tnode = e.node
        if pairs and len({a for a, _ in pairs}) == len(pairs):
            table = dict(pairs)
    if uses_resub or table is None:
        rep.ob("symbol replacement injective", False,
               "symbols are no longer replaced through a one-to-one table (regex substitution with a common "
               "replacement merges e.g. operator(<) and operator(>))", py.nloc(stored[-1].node))
        rep.ob("stem is path-safe", any("/" in t for t in closure), "'/' is still removed from the stem", py.nloc(stored[-1].node))
        rep.ob("no lossy regex on the stem", False, "re.sub applied to the stem", py.nloc(stored[-1].node))
    else:
        vals, ks = list(table.values()), list(table.keys())
        ok = len(set(vals)) == len(vals) == len(ks) and all(isinstance(v, str) and v and (v.isupper() or v.isalpha()) for v in vals)
        rep.ob("symbol replacement injective", ok,
               f"replacement table {table} has pairwise distinct values" if ok else
               f"replacement table {table} maps different symbols to one stem", py.nloc(tnode))
        rep.ob("stem is path-safe", "/" in ks, "'/' is replaced, so the stem cannot contain a path separator"
               if "/" in ks else "'/' is no longer replaced: operator(/) would create a sub-directory", py.nloc(tnode))
        rep.ob("no lossy regex on the stem", True, "stem is only changed by the literal table", py.nloc(fn))


def r2_write_targets_use_ident(ctx, rep):
    py = ctx.py
    res = Resolver(py)
    sites = c19.mutating_sites(py)
    n = 0
    for c, dest, api in sites:
        if py.module_of(c) != "output":
            continue
        fn = py.enclosing_function(c)
        txt = ast.unparse(dest)
        # entity-parameterised destinations: mention of an entity/source attribute
        comps = []
        for a in ast.walk(dest):
            if isinstance(a, ast.Attribute) and a.attr in ("name", "ident", "filename"):
                comps.append(a)
        dest_alts = [dest] + (astq.expand_locals(dest, fn) if fn is not None else [])
        if fn is not None and any(isinstance(d, ast.Attribute) and d.attr == "outfile" for d in dest_alts):
            # page classes: check every outfile implementation
            for cls in py.subclasses("BasePage"):
                ci = py.classes[cls]
                for prop in ("outfile", "object_page"):
                    if prop in ci.methods:
                        t = ast.unparse(ci.methods[prop])
                        if "self.obj" in t and ".name" in t and ".ident" not in t:
                            rep.ob(f"{cls}.{prop}", False, "page file name built from obj.name", py.nloc(ci.methods[prop]))
                        elif "self.obj" in t:
                            n += 1
                            rep.ob(f"{cls}.{prop}", True, "page file name built from the unique ident / page path",
                                   py.nloc(ci.methods[prop]))
            continue
        loop_vars = {n.target.id for n in ast.walk(fn) if isinstance(n, (ast.For, ast.comprehension)) and isinstance(n.target, ast.Name)} \
            if fn is not None else set()
        for a in comps:
            owner = ast.unparse(a.value)
            roots = {x.id for x in ast.walk(a.value) if isinstance(x, ast.Name)}
            if a.attr in ("name", "filename") and not (roots & loop_vars):
                continue    # a single configured file (not one of many entities written side by side)
            if a.attr == "ident":
                rep.ob(f"{py.qualname(fn)} {api} dest={txt[:60]}", True, "keyed by ident", py.nloc(c))
            elif a.attr in ("name", "filename"):
                rep.ob(f"{py.qualname(fn)} {api} dest={txt[:60]}", False,
                       f"destination is keyed by `{owner}.{a.attr}`, which is not unique across source directories / "
                       f"entities: two items with the same name overwrite each other's file", py.nloc(c))


PH = "\x01Id/<*>\x02"       # placeholder for the unique identifier: any case folding / symbol replacement changes it


class _StripQuote(ast.NodeTransformer):
    """urllib quote() is injective on identifiers: look through it"""
    def visit_Call(self, n):
        self.generic_visit(n)
        if call_name(n).split(".")[-1] in ("quote", "quote_plus", "str") and len(n.args) == 1 and not n.keywords:
            return n.args[0]
        return n


def symbolic_name(py, fn, prefix: str, depth: int = 0) -> List[object]:
    """values (with placeholders) of the returned page-name expressions of fn; PyModel._UNKNOWN entries are kept"""
    import copy
    out = []
    for e in astq.trace(fn):
        if e.kind != "return" or e.value is None:
            continue
        env: Dict[str, object] = {"__by_text__": True, f"{prefix}.ident": PH, f"{prefix}.obj": "{obj}",
                                  f"{prefix}.get_dir()": "{dir}", f"{prefix}.external_url": "{external}"}
        for n in ast.walk(e.value):
            if isinstance(n, ast.Name):
                for _, v in astq.assignments(fn, n.id):
                    if v is not None and "get_dir" in ast.unparse(v):
                        env[n.id] = "{dir}"
            if isinstance(n, ast.Attribute) and ast.unparse(n.value) == prefix and n.attr not in ("ident", "obj", "external_url") \
                    and depth < 2:
                r = py.resolve_method("FortranBase", n.attr)
                if r is not None and n.attr in py.classes[r[0]].properties:
                    vals = [v for v in symbolic_name(py, r[1], "self", depth + 1)]
                    if len(vals) == 1:
                        env[ast.unparse(n)] = vals[0]
        val = py.eval_const(_StripQuote().visit(copy.deepcopy(e.value)), env)
        out.append((val, e))
    return out


def r3_anchor_and_registry(ctx, rep):
    py = ctx.py
    a = py.func("FortranBase.anchor")
    vals = [v for v, _ in symbolic_name(py, a, "self")]
    ok = vals == ["{obj}-" + PH] and any(call_name(c).split(".")[-1] == "quote" for c in py.walk_calls(a))
    rep.ob("anchor = obj-quote(ident)", ok, "anchors are prefixed with the entity kind and quote the unique ident"
           if ok else f"anchor is no longer built from obj and quote(ident) ({vals})", py.nloc(a))
    i = py.func("FortranBase.ident")
    ok = any(call_name(c).endswith(".get_name") and c.args and ast.unparse(c.args[0]) == "self" for r in astq.returns(i) for c in ast.walk(r)
             if isinstance(c, ast.Call))
    rep.ob("ident comes from the registry", ok, "", py.nloc(i))
    # one module-level registry
    regs = [st for st in py.modules["sourceform"].body if isinstance(st, (ast.Assign, ast.AnnAssign))
            and isinstance(st.value, ast.Call) and call_name(st.value) == "NameSelector"]
    others = [c for t in py.modules.values() for c in ast.walk(t)
              if isinstance(c, ast.Call) and call_name(c).split(".")[-1] == "NameSelector"]
    ok = len(regs) == 1 and len(others) == 1
    rep.ob("single NameSelector registry", ok, "one module-level registry numbers all entities" if ok else
           f"{len(others)} NameSelector instances: numbering is no longer global", py.nloc(regs[0]) if regs else "ford/sourceform.py")
    # memo: an item asked twice gets the same name
    fn = py.func("NameSelector.get_name")
    ev = astq.trace(fn, astq.class_method_resolver(py, "NameSelector", "sourceform"))
    def memo_value(e) -> bool:
        """the returned value is the stored name of the item, and the path knows that there is one: `item in self._items` ...
        `self._items[item]`, or `(known := self._items.get(item)) is not None` ... `known`"""
        t = e.text(e.value)
        conds = e.cond_texts()
        if t == "self._items[item]":
            return any(c == "item in self._items" for c in conds)
        if isinstance(e.value, ast.Name):
            srcs = [ast.unparse(n.value) for n in ast.walk(fn) if isinstance(n, ast.NamedExpr) and n.target.id == t] + \
                   [ast.unparse(v) for _t, v in astq.assignments(fn, t) if v is not None]
            if srcs and all(x in ("self._items.get(item)", "self._items.get(item, None)") for x in srcs):
                return any(re.fullmatch(r"\(?(%s|\(%s := self\._items\.get\(item(, None)?\)\))\)? is not None" % (t, t), c) or c == t
                           or re.fullmatch(r"\(%s := self\._items\.get\(item(, None)?\)\)" % t, c) for c in conds)
        return False
    memo_ret = [e for e in ev if e.kind == "return" and e.value is not None and memo_value(e)]
    store = [e for e in ev if e.kind == "assign" and e.target == "self._items[item]"]
    last_ret = [e for e in ev if e.kind == "return" and e.value is not None and e not in memo_ret]
    ok = bool(memo_ret) and bool(store) and bool(last_ret) and all(e.text(e.value) == store[-1].text(store[-1].value) for e in last_ret)
    rep.ob("names are memoised per item", ok, "", py.nloc(fn))


def r4_dir_ident_overrides(ctx, rep):
    py = ctx.py
    _interface_procs_hidden(ctx, rep)
    for cls, ci in py.classes.items():
        if "get_dir" in ci.methods and cls != "FortranBase" and not cls.startswith("External"):
            g = ast.unparse(ci.methods["get_dir"])
            def props(fn_) -> List[str]:
                """the atomic propositions the function branches on (if statements and conditional expressions; negation
                and the order of the branches do not matter)"""
                out = []

                def atoms(t):
                    if isinstance(t, ast.BoolOp):
                        for v in t.values:
                            atoms(v)
                    elif isinstance(t, ast.UnaryOp) and isinstance(t.op, ast.Not):
                        atoms(t.operand)
                    else:
                        out.append(ast.unparse(t))
                for n in ast.walk(fn_):
                    if isinstance(n, (ast.If, ast.IfExp)):
                        atoms(n.test)
                return out
            conds = props(ci.methods["get_dir"])
            if "ident" in ci.methods:
                iconds = props(ci.methods["ident"])
                ok = set(conds) == set(iconds) or not conds
                rep.ob(f"{cls}: get_dir/ident overrides agree", ok,
                       f"both redirect under {conds}" if ok else
                       f"get_dir redirects under {conds} but ident under {iconds}", py.nloc(ci.methods["get_dir"]))
            else:
                # redirecting the directory without changing ident is fine iff the counter namespace is get_dir()
                rep.ob(f"{cls}: get_dir override", True,
                       "directory redirected; uniqueness rests on the get_dir()-namespaced counter (R1)",
                       py.nloc(ci.methods["get_dir"]), nontrivial=False)


def _interface_procs_hidden(ctx, rep):
    """the procedure inside a non-generic interface block borrows the block's directory and identifier; that is only
    sound while it is never linked on its own, i.e. while its `visible` flag stays False"""
    py = ctx.py
    hits = []
    for _, fn in py.all_functions():
        for n in ast.walk(fn):
            if isinstance(n, ast.Assign) and any(ast.unparse(t).endswith(".procedure.visible") for t in n.targets) and \
                    isinstance(n.value, ast.Constant) and n.value.value is True:
                hits.append(n)
    rep.ob("interface-block procedures are never made linkable on their own", not hits,
           "no statement sets <interface>.procedure.visible = True" if not hits else
           f"`{ast.unparse(hits[0])}`: the wrapped procedure's URL is interface/<ident of the block>.html with the ident taken from "
           f"the block's own namespace; for a block local to a procedure that page does not exist or belongs to an equally named "
           f"module-level interface", py.nloc(hits[0]) if hits else "ford/sourceform.py")


LOSSY = ("re.sub", "replace", "translate", "lower", "upper", "strip", "casefold", "split", "encode")


def r5_no_transformation_after_uniqueness(ctx, rep):
    """the unique identifier is used verbatim wherever a file name or URL is composed: the composing expressions are
    evaluated symbolically with a placeholder for the identifier that any case folding / replacement would change."""
    py = ctx.py

    def lossy_in(fn) -> List[str]:
        out = []
        for c in py.walk_calls(fn):
            n = call_name(c)
            if (n in LOSSY or n.split(".")[-1] in LOSSY) and "ident" in ast.unparse(c):
                out.append(n)
        for s2 in ast.walk(fn):
            if isinstance(s2, ast.Subscript) and isinstance(s2.slice, ast.Slice) and "ident" in ast.unparse(s2.value):
                out.append("slice")
        return out

    def check_site(label: str, fn, prefix: str, want: str, select=None):
        vals = symbolic_name(py, fn, prefix)
        if select is not None:
            vals = [(v, e) for v, e in vals if select(e)]
        vals = [(v, e) for v, e in vals if not (isinstance(v, str) and v in ("{external}",)) and v is not None]
        if not vals:
            raise AnalysisError(f"{label}: no page-name composition found")
        for v, e in vals:
            src = ast.unparse(e.value)
            if v is PyModel._UNKNOWN:
                # which attribute supplies the stem?
                attrs = [a for a in re.findall(re.escape(prefix) + r"\.(\w+)", src) if a not in ("obj", "get_dir", "ident")]
                bad = lossy_in(fn)
                for a in attrs:
                    r = py.resolve_method("FortranBase", a)
                    if r is not None:
                        bad += lossy_in(r[1])
                        rep.ob(f"{label} stem attribute `{a}`", False,
                               f"the page name comes from `{a}`, which applies {bad or 'something other than ident'} after NameSelector "
                               f"made the identifier unique: different identifiers (operator(+), operator(==)) collapse to one file "
                               f"name and one page silently overwrites the other", py.nloc(r[1]))
                        break
                else:
                    if bad:
                        rep.ob(f"{label} uses ident verbatim", False, f"`{src[:60]}` applies {bad} to the identifier", py.nloc(fn))
                    else:
                        raise AnalysisError(f"{label}: composition `{src[:60]}` not understood")
                continue
            ok = v == want
            rep.ob(f"{label} uses ident verbatim", ok,
                   f"`{src[:60]}`" if ok else
                   f"`{src[:60]}` composes {str(v).replace(PH, '<ident>')!r}, expected {want.replace(PH, '<ident>')!r}: the unique "
                   f"identifier is altered (or not used) after NameSelector made it unique", py.nloc(fn))

    gu = py.func("FortranBase.get_url")

    def under_dir(e) -> bool:
        for c in e.cond_texts():
            if c.startswith("not "):
                continue
            if "get_dir" in c:
                return True
            for nm in re.findall(r"\b[A-Za-z_]\w*\b", c):
                if any("get_dir" in ast.unparse(v) for _, v in astq.assignments(gu, nm) if v is not None):
                    return True
        return False
    check_site("FortranBase.get_url", gu, "self", "{dir}/" + PH + ".html", select=under_dir)
    check_site("DocPage.object_page", py.func("DocPage.object_page"), "self.obj", PH + ".html")
    check_site("FortranBase.anchor", py.func("FortranBase.anchor"), "self", "{obj}-" + PH)
    # saved graph files: <graph_dir>/<imgfile>.{gv,svg} - the name must keep what distinguishes the identifiers
    gi = py.func("FortranGraph.__init__")
    img = [v for _, v in astq.assignments(gi, "self.imgfile") if v is not None]
    if not img:
        raise AnalysisError("FortranGraph.__init__: self.imgfile is not assigned")
    lossy = []
    for v in img:
        exprs = astq.expand_locals(v, gi)
        for e in list(exprs):
            for c in ast.walk(e):
                if isinstance(c, ast.Call) and isinstance(c.func, ast.Name) and f"graphs.{c.func.id}" in py.functions:
                    h = py.functions[f"graphs.{c.func.id}"]
                    exprs += [x for r in astq.returns(h) for x in astq.expand_locals(r, h)]
        for e in exprs:
            for c in ast.walk(e):
                if isinstance(c, ast.Call) and (call_name(c) in LOSSY or call_name(c).split(".")[-1] in LOSSY):
                    lossy.append(call_name(c))
    rep.ob("graph file names keep the identifier", not lossy,
           "imgfile is the graph identifier itself" if not lossy else
           f"the file name of a saved graph is derived from the identifier through {sorted(set(lossy))}: identifiers that differ only "
           f"in the removed characters (operator(+), operator(-), operator(==)) write to the same .svg/.gv file", py.nloc(gi))
    # several procedures of one *generic* interface must keep their own identifiers
    ip = py.func("FortranProcedure.is_interface_procedure")
    rtxt = " ".join(ast.unparse(r) for r in astq.returns(ip))
    ok = "not self.parent.generic" in rtxt and "isinstance(self.parent, FortranInterface)" in rtxt
    rep.ob("only the single procedure of a non-generic interface borrows the interface's identifier", ok,
           "ident/get_dir are redirected only for non-generic interface blocks (one procedure per block)" if ok else
           "is_interface_procedure no longer excludes generic interfaces: every specific procedure written inside a named "
           "interface takes the interface's ident, so they share one anchor id and one URL", py.nloc(ip))



def r6_ident_not_a_key(ctx, rep):
    """`ident` is unique only within one output directory (get_dir()): a type and a generic interface of the same name
    share it. It must not be used on its own as the key of a mapping / membership test that identifies entities."""
    py = ctx.py
    n = 0
    for mod, fn in py.all_functions():
        if py.qualname(fn).startswith("sourceform.NameSelector"):
            continue
        for x in ast.walk(fn):
            key = None
            if isinstance(x, ast.Subscript) and isinstance(x.slice, ast.Attribute) and x.slice.attr == "ident":
                key = x.slice
            elif isinstance(x, ast.Compare) and len(x.ops) == 1 and isinstance(x.ops[0], (ast.In, ast.NotIn)) and \
                    isinstance(x.left, ast.Attribute) and x.left.attr == "ident":
                key = x.left
            elif isinstance(x, ast.Call) and isinstance(x.func, ast.Attribute) and x.func.attr in ("get", "setdefault", "pop") and x.args \
                    and isinstance(x.args[0], ast.Attribute) and x.args[0].attr == "ident":
                key = x.args[0]
            if key is None or py.enclosing_function(x) is not fn:
                continue
            n += 1
            rep.ob(f"{py.qualname(fn)}: `{ast.unparse(x)[:50]}` keyed by ident alone", False,
                   f"`{ast.unparse(key)}` identifies an entity only together with its directory (get_dir()): a derived type and "
                   f"the generic interface that serves as its constructor have the same ident, so one replaces the other in this "
                   f"mapping", py.nloc(x))
    rep.ob("no mapping is keyed by ident alone", n == 0, "ident is only used inside NameSelector, in file names and in "
           "'<dir>~<ident>' node ids" if n == 0 else f"{n} site(s)", "ford/", nontrivial=False)


def r7_pages_do_not_merge(ctx, rep):
    """two static pages whose file names differ only after a dot must not be written to one output file
    (shared with C17.R8)"""
    from . import c17
    c17.r8_one_page_per_file(ctx, rep)

def r8_template_ids_are_anchors(ctx, rep):
    """the id of an item on a page is its `anchor` (built from the unique ident), for every collection and row kind - an id
    built from the name is shared by equally named items (shared with C09.R2 / C09.R8)"""
    from . import c09
    c09.r2_anchors(ctx, rep)
    c09.r8_anchor_targets_exist(ctx, rep)


def r9_source_copies_cover_file_pages(ctx, rep):
    """every file that has a file page carries a "Source File" link to its copy under src/: the copies are made for the same
    collection of files the pages are made for (sibling agreement between Documentation.__init__ and Documentation.writeout)"""
    py = ctx.py
    from . import c09
    subl = c09.property_sublists(py, "Project")

    def bases(attr: str) -> Set[str]:
        return set(subl.get(attr, {attr}))
    init = py.func("Documentation.__init__")
    paged = {t.elts[0].attr for t in ast.walk(init) if isinstance(t, ast.Tuple) and len(t.elts) == 2 and isinstance(t.elts[0], ast.Attribute)
             and isinstance(t.elts[1], ast.Name) and t.elts[1].id == "FilePage"}
    paged |= {lp.iter.attr for lp in ast.walk(init) if isinstance(lp, ast.For) and isinstance(lp.iter, ast.Attribute)
              and any(call_name(c) == "FilePage" for c in py.walk_calls(lp))}
    # a table keyed by the name of the project list: {"files": FilePage, ...} / table["allfiles"] = FilePage
    for n in ast.walk(init):
        if isinstance(n, ast.Dict):
            paged |= {k.value for k, v in zip(n.keys, n.values) if isinstance(k, ast.Constant) and isinstance(k.value, str)
                      and isinstance(v, ast.Name) and v.id == "FilePage"}
        if isinstance(n, ast.Assign) and isinstance(n.value, ast.Name) and n.value.id == "FilePage":
            paged |= {t.slice.value for t in n.targets if isinstance(t, ast.Subscript) and isinstance(t.slice, ast.Constant)
                      and isinstance(t.slice.value, str)}
        if isinstance(n, ast.Call) and call_name(n) == "dict":
            paged |= {k.arg for k in n.keywords if k.arg and isinstance(k.value, ast.Name) and k.value.id == "FilePage"}
    if not paged:
        raise AnalysisError("Documentation.__init__: the collection FilePage objects are made from was not found")
    wo = py.func("Documentation.writeout")
    loops = [lp for lp in ast.walk(wo) if isinstance(lp, ast.For) and any(
        call_name(c).split(".")[-1] in ("copy", "copy2", "copyfile") and len(c.args) >= 2 and
        any(isinstance(k, ast.Constant) and k.value == "src" for k in ast.walk(c.args[1])) for c in py.walk_calls(lp))]
    if not loops:
        raise AnalysisError("Documentation.writeout: the loop copying source files into src/ was not found")
    need = set().union(*[bases(a) for a in paged])
    for lp in loops:
        its = [a.attr for x in [lp.iter] + astq.expand_locals(lp.iter, wo) for a in ast.walk(x) if isinstance(a, ast.Attribute)
               and ast.unparse(a.value) in ("self.project", "project")]
        have = set().union(*[bases(a) for a in its]) if its else set()
        ok = need <= have
        rep.ob("source copies are made for every file that has a file page", ok,
               f"pages for project.{sorted(paged)} ({sorted(need)}), copies for {sorted(have)}" if ok else
               f"file pages are made for {sorted(need)} but only {sorted(have)} are copied to src/: the \"Source File\" link on the page "
               f"of a file from {sorted(need - have)} points at a copy that is never written", py.nloc(lp))


def r10_paged_entities_are_gathered(ctx, rep):
    """an entity whose URL names a page of its own has that page written: it is gathered into the project list the pages are made
    from (shared with C09.R7)"""
    from . import c09
    c09.r7_pageable_entities_get_pages(ctx, rep)


def r11_inherited_bindings_are_copies(ctx, rep):
    """an inherited binding is re-parented, so its anchor lies on the page that shows it (shared with C07.R9)"""
    from . import c07
    c07.r9_inherited_bindings_are_copies(ctx, rep)


RULES = [
    RuleSpec("C10.R5", r5_no_transformation_after_uniqueness, "no lossy transformation after the identifier was made unique", floor=2),
    RuleSpec("C10.R1", r1_counter_key, "collision key at least as coarse as the stem; injective symbol table", floor=2),
    RuleSpec("C10.R2", r2_write_targets_use_ident, "per-entity write targets use ident", floor=2),
    RuleSpec("C10.R3", r3_anchor_and_registry, "anchor quoting, single registry, memoisation", floor=2),
    RuleSpec("C10.R4", r4_dir_ident_overrides, "get_dir and ident overrides agree", floor=1),
    RuleSpec("C10.R7", r7_pages_do_not_merge, "static pages with dotted names do not share an output file (shared with C17.R8)", floor=1),
    RuleSpec("C10.R6", r6_ident_not_a_key, "ident is not used alone as an identity key", floor=1),
    RuleSpec("C10.R8", r8_template_ids_are_anchors, "element ids are the unique anchors the links use (shared with C09.R2/R8)", floor=20),
    RuleSpec("C10.R9", r9_source_copies_cover_file_pages, "source copies are made for every file that has a file page", floor=1),
    RuleSpec("C10.R10", r10_paged_entities_are_gathered, "entities with a page URL are gathered into a paged list (shared with C09.R7)", floor=5),
    RuleSpec("C10.R11", r11_inherited_bindings_are_copies, "an inherited binding is re-parented, so its anchor lies on the page that shows it (shared with C07.R9)", floor=1),
]
