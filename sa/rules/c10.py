"""C10 — distinct entities never share a page, anchor or copied file (structural clauses)."""
from __future__ import annotations

import ast
import re
from typing import Dict, List, Optional, Set, Tuple

from ..core import AnalysisError, RuleSpec
from ..pymodel import call_name
from ..prov import Resolver
from . import c19

EXPLANATION = (
    "Rules on the three places that manufacture output names. R1: in NameSelector.get_name the key of "
    "the ~N collision counter must be at least as coarse as the emitted stem: every name-merging "
    "transformation applied to item.name when building the stem (lower-casing, symbol replacement) is "
    "also applied to the counter key, the symbol replacement is an injective table, and counters are "
    "namespaced by the output directory (get_dir()). R2: every per-entity write destination in "
    "output.py is built from the unique `ident`, not from `name`. R3: the stem cannot contain a path "
    "separator and anchors quote the ident. R4: classes that redirect get_dir() also redirect ident "
    "under the same condition, and the registry is one module-level NameSelector. Whether two given "
    "entities collide is a run-time fact and is not decided."
)
ASSUMPTIONS = ["str.lower and str.replace are the only name-merging string operations in use"]


def _chain_methods(e: ast.AST) -> Tuple[str, List[str]]:
    """('item.name', ['lower', ...]) for item.name.lower()...."""
    ms: List[str] = []
    while isinstance(e, ast.Call) and isinstance(e.func, ast.Attribute):
        ms.append(e.func.attr)
        e = e.func.value
    return ast.unparse(e), list(reversed(ms))


def r1_counter_key(ctx, rep):
    py = ctx.py
    fn = py.func("NameSelector.get_name")
    # counter accesses: self._counts[NS][KEY], or alias = self._counts.setdefault(NS, {}) ; alias[KEY]
    keys: Set[str] = set()
    nss: Set[str] = set()
    aliases: Set[str] = set()
    for n in ast.walk(fn):
        if isinstance(n, ast.Assign) and len(n.targets) == 1 and isinstance(n.targets[0], ast.Name):
            v = n.value
            if isinstance(v, ast.Call) and call_name(v) in ("self._counts.setdefault", "self._counts.get") and v.args:
                nss.add(ast.unparse(v.args[0]))
                aliases.add(n.targets[0].id)
            elif isinstance(v, ast.Subscript) and ast.unparse(v.value) == "self._counts":
                nss.add(ast.unparse(v.slice))
                aliases.add(n.targets[0].id)

    def is_table(e: ast.AST) -> bool:
        if isinstance(e, ast.Subscript) and ast.unparse(e.value) == "self._counts":
            nss.add(ast.unparse(e.slice))
            return True
        return isinstance(e, ast.Name) and e.id in aliases

    for n in ast.walk(fn):
        if isinstance(n, ast.Subscript) and is_table(n.value):
            keys.add(ast.unparse(n.slice))
        if isinstance(n, ast.Compare) and len(n.ops) == 1 and isinstance(n.ops[0], (ast.In, ast.NotIn)):
            if is_table(n.comparators[0]):
                keys.add(ast.unparse(n.left))
            elif ast.unparse(n.comparators[0]) == "self._counts":
                nss.add(ast.unparse(n.left))
        if isinstance(n, ast.Call) and isinstance(n.func, ast.Attribute) and n.func.attr in ("get", "setdefault") \
                and is_table(n.func.value) and n.args:
            keys.add(ast.unparse(n.args[0]))
    if not keys or not nss:
        raise AnalysisError("NameSelector.get_name: counter table accesses not understood")
    # resolve local names used as key/namespace to their definitions
    defs: Dict[str, ast.AST] = {}
    for n in ast.walk(fn):
        if isinstance(n, ast.Assign) and len(n.targets) == 1 and isinstance(n.targets[0], ast.Name):
            defs.setdefault(n.targets[0].id, n.value)

    def expand(txt: str) -> str:
        return ast.unparse(defs[txt]) if txt in defs else txt
    keys_x = {expand(k) for k in keys}
    nss_x = {expand(k) for k in nss}
    ok = len(nss_x) == 1 and next(iter(nss_x)) == "item.get_dir()"
    rep.ob("counter namespace", ok,
           "the ~N counters are namespaced by item.get_dir(), the directory the page is written to" if ok else
           f"counter namespace is {sorted(nss_x)}: entities written into one directory (module/submodule) may be "
           f"counted separately and receive the same stem", py.nloc(fn))
    # the stem
    stem_def = None
    for n in ast.walk(fn):
        if isinstance(n, ast.Assign) and len(n.targets) == 1 and isinstance(n.targets[0], ast.Name) \
                and n.targets[0].id == "name" and "item.name" in ast.unparse(n.value):
            stem_def = n
            break
    if stem_def is None:
        raise AnalysisError("NameSelector.get_name: stem definition (`name = ...item.name...`) not found")
    base, stem_ops = _chain_methods(stem_def.value)
    if base != "item.name" and not (isinstance(stem_def.value, ast.Call) and "item.name" in ast.unparse(stem_def.value)):
        raise AnalysisError("stem is not derived from item.name by method calls")
    merging = [m for m in stem_ops if m in ("lower", "upper", "casefold", "strip", "title")]
    uses_resub = "re.sub" in ast.unparse(stem_def.value)
    for k in sorted(keys_x):
        kb, kops = _chain_methods(ast.parse(k, mode="eval").body)
        missing = [m for m in merging if m not in kops]
        ok = not missing and (kb == "item.name")
        rep.ob(f"counter key `{k}` vs stem `{ast.unparse(stem_def.value)}`", ok,
               ("every name-merging step of the stem is applied to the counter key as well" if ok else
                f"the stem applies {merging} to item.name but the collision counter is keyed by `{k}`: names that "
                f"differ only by that step (e.g. `Init` / `init`) each count as first and get the same file"),
               py.nloc(fn))
    # symbol replacement must be an injective literal table
    tables = [n for n in ast.walk(fn) if isinstance(n, ast.Dict) and n.keys and all(
        isinstance(k, ast.Constant) and isinstance(k.value, str) for k in n.keys)]
    if uses_resub or not tables:
        rep.ob("symbol replacement injective", False,
               "symbols are no longer replaced through a one-to-one table (regex substitution with a common "
               "replacement merges e.g. operator(<) and operator(>))", py.nloc(stem_def))
        rep.ob("stem is path-safe", "/" in ast.unparse(stem_def.value), "'/' is still removed from the stem",
               py.nloc(stem_def))
        rep.ob("no lossy regex on the stem", False, "re.sub applied to the stem", py.nloc(stem_def))
    else:
        vals = [v.value for v in tables[0].values if isinstance(v, ast.Constant)]
        ks = [k.value for k in tables[0].keys]
        ok = len(set(vals)) == len(vals) == len(ks) and all(
            isinstance(v, str) and v and (v.isupper() or v.isalpha()) for v in vals)
        rep.ob("symbol replacement injective", ok,
               f"replacement table {dict(zip(ks, vals))} has pairwise distinct values" if ok else
               f"replacement table {dict(zip(ks, vals))} maps different symbols to one stem", py.nloc(tables[0]))
        rep.ob("stem is path-safe", "/" in ks, "'/' is replaced, so the stem cannot contain a path separator"
               if "/" in ks else "'/' is no longer replaced: operator(/) would create a sub-directory",
               py.nloc(tables[0]))
        # other re.sub on name later?
        later = [c for c in py.walk_calls(fn) if call_name(c) == "re.sub"]
        rep.ob("no lossy regex on the stem", not later, "stem is only changed by the literal table" if not later else
               "re.sub applied to the stem", py.nloc(later[0]) if later else py.nloc(fn))


def r2_write_targets_use_ident(ctx, rep):
    py = ctx.py
    res = Resolver(py)
    sites = c19.mutating_sites(py)
    n = 0
    for c, dest, api in sites:
        if py.module_of(c) != "output":
            continue
        fn = py.enclosing_function(c)
        txt = ast.unparse(dest)
        # entity-parameterised destinations: mention of an entity/source attribute
        comps = []
        for a in ast.walk(dest):
            if isinstance(a, ast.Attribute) and a.attr in ("name", "ident", "filename"):
                comps.append(a)
        if fn is not None and isinstance(dest, ast.Attribute) and dest.attr == "outfile":
            # page classes: check every outfile implementation
            for cls in py.subclasses("BasePage"):
                ci = py.classes[cls]
                for prop in ("outfile", "object_page"):
                    if prop in ci.methods:
                        t = ast.unparse(ci.methods[prop])
                        if "self.obj" in t and ".name" in t and ".ident" not in t:
                            rep.ob(f"{cls}.{prop}", False, "page file name built from obj.name", py.nloc(ci.methods[prop]))
                        elif "self.obj" in t:
                            n += 1
                            rep.ob(f"{cls}.{prop}", True, "page file name built from the unique ident / page path",
                                   py.nloc(ci.methods[prop]))
            continue
        for a in comps:
            owner = ast.unparse(a.value)
            if a.attr == "ident":
                rep.ob(f"{py.qualname(fn)} {api} dest={txt[:60]}", True, "keyed by ident", py.nloc(c))
            elif a.attr in ("name", "filename"):
                rep.ob(f"{py.qualname(fn)} {api} dest={txt[:60]}", False,
                       f"destination is keyed by `{owner}.{a.attr}`, which is not unique across source directories / "
                       f"entities: two items with the same name overwrite each other's file", py.nloc(c))


def r3_anchor_and_registry(ctx, rep):
    py = ctx.py
    a = py.func("FortranBase.anchor")
    t = ast.unparse(a)
    ok = "quote(self.ident)" in t and "self.obj" in t
    rep.ob("anchor = obj-quote(ident)", ok, "anchors are prefixed with the entity kind and quote the unique ident"
           if ok else "anchor is no longer built from obj and quote(ident)", py.nloc(a))
    i = py.func("FortranBase.ident")
    ok = "namelist.get_name(self)" in ast.unparse(i)
    rep.ob("ident comes from the registry", ok, "", py.nloc(i))
    # one module-level registry
    regs = [st for st in py.modules["sourceform"].body if isinstance(st, ast.Assign)
            and isinstance(st.value, ast.Call) and call_name(st.value) == "NameSelector"]
    others = [c for t in py.modules.values() for c in ast.walk(t)
              if isinstance(c, ast.Call) and call_name(c).split(".")[-1] == "NameSelector"]
    ok = len(regs) == 1 and len(others) == 1
    rep.ob("single NameSelector registry", ok, "one module-level registry numbers all entities" if ok else
           f"{len(others)} NameSelector instances: numbering is no longer global", py.nloc(regs[0]) if regs else "ford/sourceform.py")
    # memo: an item asked twice gets the same name
    fn = py.func("NameSelector.get_name")
    t = ast.unparse(fn)
    ok = "if item in self._items" in t and "self._items[item] = name" in t
    rep.ob("names are memoised per item", ok, "", py.nloc(fn))


def r4_dir_ident_overrides(ctx, rep):
    py = ctx.py
    for cls, ci in py.classes.items():
        if "get_dir" in ci.methods and cls != "FortranBase" and not cls.startswith("External"):
            g = ast.unparse(ci.methods["get_dir"])
            conds = [ast.unparse(n.test) for n in ast.walk(ci.methods["get_dir"]) if isinstance(n, ast.If)]
            if "ident" in ci.methods:
                iconds = [ast.unparse(n.test) for n in ast.walk(ci.methods["ident"]) if isinstance(n, ast.If)]
                ok = set(conds) == set(iconds) or not conds
                rep.ob(f"{cls}: get_dir/ident overrides agree", ok,
                       f"both redirect under {conds}" if ok else
                       f"get_dir redirects under {conds} but ident under {iconds}", py.nloc(ci.methods["get_dir"]))
            else:
                # redirecting the directory without changing ident is fine iff the counter namespace is get_dir()
                rep.ob(f"{cls}: get_dir override", True,
                       "directory redirected; uniqueness rests on the get_dir()-namespaced counter (R1)",
                       py.nloc(ci.methods["get_dir"]), nontrivial=False)


LOSSY = ("re.sub", "replace", "translate", "lower", "upper", "strip", "casefold", "split", "encode")


def r5_no_transformation_after_uniqueness(ctx, rep):
    """the unique identifier is used verbatim wherever a file name or URL is composed."""
    py = ctx.py

    def lossy_calls(fn) -> List[str]:
        out = []
        for c in py.walk_calls(fn):
            n = call_name(c)
            if n in LOSSY or n.split(".")[-1] in LOSSY:
                out.append(n)
        for s in ast.walk(fn):
            if isinstance(s, ast.Subscript) and isinstance(s.slice, ast.Slice) and "ident" in ast.unparse(s.value):
                out.append("slice")
        return out

    def html_exprs(fn):
        """the returned expressions that compose the page file name: for get_url the return under
        `if loc := self.get_dir()`, otherwise every returned f-string / concatenation / attribute."""
        out = []
        for n in ast.walk(fn):
            if isinstance(n, ast.If) and "self.get_dir()" in ast.unparse(n.test):
                return [r.value for r in n.body if isinstance(r, ast.Return) and r.value is not None]
        for n in ast.walk(fn):
            if isinstance(n, ast.Return) and isinstance(n.value, (ast.JoinedStr, ast.BinOp, ast.Attribute)):
                out.append(n.value)
        return out

    def check_site(label: str, fn, obj_prefix: str, exprs=None):
        exprs = exprs if exprs is not None else html_exprs(fn)
        if not exprs:
            raise AnalysisError(f"{label}: no '<stem>.html' composition found")
        for e in exprs:
            src = ast.unparse(e)
            attrs = [a for a in re.findall(re.escape(obj_prefix) + r"\.(\w+)", src) if a not in ("obj", "get_dir")]
            bad_here = [call_name(c) for c in py.walk_calls(e) if call_name(c).split(".")[-1] in LOSSY]
            if not attrs:
                rep.ob(f"{label}: `{src[:50]}` stem", False, "the stem is not taken from the entity's ident", py.nloc(fn))
            for a in attrs:
                if a == "ident":
                    rep.ob(f"{label} uses ident verbatim", not bad_here, f"`{src[:60]}`", py.nloc(fn))
                    continue
                r = py.resolve_method("FortranBase", a)
                if r is None:
                    rep.ob(f"{label} stem attribute `{a}`", False, f"`{a}` is not the unique ident", py.nloc(fn))
                    continue
                body = ast.unparse(r[1])
                bad = lossy_calls(r[1])
                ok = "self.ident" in body and not bad
                rep.ob(f"{label} stem attribute `{a}`", ok,
                       f"`{a}` returns the ident unchanged" if ok else
                       f"the page name comes from `{a}`, which applies {bad or 'something other than ident'} after NameSelector "
                       f"made the identifier unique: different identifiers (operator(+), operator(==)) collapse to one file "
                       f"name and one page silently overwrites the other", py.nloc(r[1]))

    gu = py.func("FortranBase.get_url")
    check_site("FortranBase.get_url", gu, "self")
    op = py.func("DocPage.object_page")
    check_site("DocPage.object_page", op, "self.obj")
    an = py.func("FortranBase.anchor")
    check_site("FortranBase.anchor", an, "self", [n for n in ast.walk(an) if isinstance(n, ast.JoinedStr)])
    # several procedures of one *generic* interface must keep their own identifiers
    ip = py.func("FortranProcedure.is_interface_procedure")
    ok = "not self.parent.generic" in ast.unparse(ip) and "isinstance(self.parent, FortranInterface)" in ast.unparse(ip)
    rep.ob("only the single procedure of a non-generic interface borrows the interface's identifier", ok,
           "ident/get_dir are redirected only for non-generic interface blocks (one procedure per block)" if ok else
           "is_interface_procedure no longer excludes generic interfaces: every specific procedure written inside a named "
           "interface takes the interface's ident, so they share one anchor id and one URL", py.nloc(ip))


RULES = [
    RuleSpec("C10.R5", r5_no_transformation_after_uniqueness, "no lossy transformation after the identifier was made unique", floor=4),
    RuleSpec("C10.R1", r1_counter_key, "collision key at least as coarse as the stem; injective symbol table", floor=5),
    RuleSpec("C10.R2", r2_write_targets_use_ident, "per-entity write targets use ident", floor=3),
    RuleSpec("C10.R3", r3_anchor_and_registry, "anchor quoting, single registry, memoisation", floor=4),
    RuleSpec("C10.R4", r4_dir_ident_overrides, "get_dir and ident overrides agree", floor=2),
]
