"""Tables shared by template rules; every entry is either extracted from the Python
source on each run or is a reviewed constant with a one-line reason."""
from __future__ import annotations

import ast
from typing import Dict, List, Set, Tuple

from .core import AnalysisError
from .pymodel import PyModel, call_name


def str_list_in(fn: ast.AST) -> List[List[str]]:
    out = []
    for n in ast.walk(fn):
        if isinstance(n, (ast.List, ast.Tuple)) and n.elts and all(
                isinstance(e, ast.Constant) and isinstance(e.value, str) for e in n.elts):
            out.append([e.value for e in n.elts])
    return out


def children_lists(py: PyModel) -> Tuple[Set[str], Set[str]]:
    """(list-valued child attributes, single-valued child attributes) from FortranBase.children."""
    fn = py.func("FortranBase.children")
    lists: Set[str] = set()
    singles: Set[str] = set()
    def local_value(name: str):
        for st in ast.walk(fn):
            if isinstance(st, ast.Assign) and any(isinstance(t, ast.Name) and t.id == name for t in st.targets):
                v = py.eval_const(st.value, py.module_env(py.module_of(fn)))
                if isinstance(v, (list, tuple)):
                    return [x for x in v if isinstance(x, str)]
        return []
    for c in py.walk_calls(fn):
        if call_name(c) == "self.iterator":
            for a in c.args:
                if isinstance(a, ast.Constant):
                    lists.add(a.value)
                elif isinstance(a, ast.Starred) and isinstance(a.value, ast.Name):      # self.iterator(*names)
                    lists |= set(local_value(a.value.id))
                elif isinstance(a, ast.Starred):
                    v = py.eval_const(a.value, py.module_env(py.module_of(fn)))
                    if isinstance(v, (list, tuple)):
                        lists |= {x for x in v if isinstance(x, str)}
    # single-valued children: the names over which `getattr(self, <name>, None)` is evaluated
    for g in ast.walk(fn):
        if isinstance(g, (ast.GeneratorExp, ast.ListComp)) and any(isinstance(c, ast.Call) and call_name(c) == "getattr" for c in ast.walk(g.elt)):
            it = g.generators[0].iter
            if isinstance(it, ast.Name):
                singles |= set(local_value(it.id))
            else:
                v = py.eval_const(it, py.module_env(py.module_of(fn)))
                if isinstance(v, (list, tuple)):
                    singles |= {x for x in v if isinstance(x, str)}
    if not singles:
        for st in ast.walk(fn):
            if isinstance(st, ast.Assign) and isinstance(st.value, (ast.List, ast.Tuple)):
                singles |= {e.value for e in st.value.elts if isinstance(e, ast.Constant)}
    if len(lists) < 10 or not singles:
        raise AnalysisError("FortranBase.children: could not extract the child collections")
    return lists, singles


def project_lists(py: PyModel) -> Dict[str, str]:
    """Project attribute -> annotation text, for attributes initialised to [] in Project.__init__."""
    fn = py.func("Project.__init__")
    out: Dict[str, str] = {}
    for st in fn.body:
        if isinstance(st, ast.AnnAssign) and isinstance(st.target, ast.Attribute) \
                and isinstance(st.value, ast.List):
            out[st.target.attr] = ast.unparse(st.annotation)
    if len(out) < 10:
        raise AnalysisError("Project.__init__: could not extract the project lists")
    return out


# Reviewed constants ---------------------------------------------------------------------------
# attribute names whose value is a list of entities but that are not in FortranBase.children
EXTRA_ENTITY_LISTS = {
    "uses": "FortranCodeUnit.correlate replaces names by module objects",
    "ancestry": "FortranCodeUnit.correlate (submodule ancestors)",
    "descendants": "FortranModule._initialize / correlate",
    "hierarchy": "FortranBase._make_hierarchy",
    "routines": "FortranBase.routines iterator",
    "modprocs": "FortranInterface._initialize",
    "modfunctions": "FortranCodeUnit.correlate",
    "modsubroutines": "FortranCodeUnit.correlate",
    "calls": "FortranCodeUnit.correlate resolves to procedures",
    "other_uses": "FortranCommon.correlate",
    "allfiles": "Project.allfiles",
    "contents": "FortranInterface._cleanup",
    "proto": "[entity-or-name, argument text] (parse_type / FortranVariable.correlate)",
    "local_variables": "FortranType.correlate",
    "parameters": "FortranType._cleanup",
}
# attribute names whose value is one entity
EXTRA_ENTITIES = {
    "parent": "FortranBase.__init__",
    "extends": "FortranCodeUnit.correlate resolves the parent type",
    "module": "FortranCodeUnit.correlate pairs interface and implementation",
    "binding": "FortranBoundProcedure.correlate sets proc.binding",
    "ancestor_module": "find_used_modules",
    "parent_submodule": "find_used_modules",
    "source_file": "FortranBase.source_file",
}
# strings that embed str(entity), i.e. an <a href> built from base_url
LINK_STRINGS = {
    "full_type": "FortranVariable.full_type interpolates str(self.proto[0])",
    "full_declaration": "built from full_type / binding_type",
    "binding_type": "FortranBoundProcedure.binding_type interpolates self.proto",
}
