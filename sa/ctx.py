"""Analysis context: lazily built models shared by the rules of one run."""
from __future__ import annotations

from functools import cached_property
from pathlib import Path

from .pymodel import PyModel


class Ctx:
    def __init__(self, root: Path):
        self.root = Path(root)
        self.py = PyModel(self.root)
        self._used = {"python_modules": len(self.py.modules),
                      "classes": len(self.py.classes),
                      "functions": sum(1 for _ in self.py.all_functions())}

    @cached_property
    def j(self):
        from .jmodel import JModel
        jm = JModel(self.root)
        self._used["templates"] = len(jm.templates)
        self._used["template_outputs"] = len(jm.outputs)
        return jm

    @cached_property
    def rx(self):
        from . import rxlang
        return rxlang

    @cached_property
    def regexes(self):
        r = self.py.regex_constants()
        self._used["regex_constants"] = len(r)
        return r

    @cached_property
    def cascade(self):
        from .cascade import Cascade
        c = Cascade(self.py)
        self._used["cascade_arms"] = len(c.arms)
        return c

    def analysed_summary(self):
        return dict(self._used, root=str(self.root))
