"""E7 — self-test of the checker (thorough tier only; validates the rules, not FORD).

Variants of ford/ are built in a scratch directory under $TMPDIR (outside /repo and /verif,
removed immediately afterwards):
  * every mutation stored under /verif/seeded/<prop>_<x>/patch.diff  -> the property's rules must
    report at least one violation that is not a known finding;
  * for every finding recorded as `fixed` with a commit: that commit reverted -> the rule must
    report exactly that (rule, construct) again.
A variant whose patch no longer applies to the current tree is skipped (reported in the evidence).
Nothing of FORD is executed; the rules simply run with --root pointing at the variant.
"""
from __future__ import annotations

import json
import os
import shutil
import subprocess
import tempfile
from concurrent.futures import ProcessPoolExecutor
from pathlib import Path
from typing import Dict, List, Optional, Tuple

VERIF = Path(__file__).resolve().parent.parent


PATCH_SEPARATOR = "\n#### NEXT PATCH ####\n"


def _make_variant(root: Path, patch_text: str, reverse: bool) -> Optional[Path]:
    base = Path(tempfile.mkdtemp(prefix="fordsa_", dir=os.environ.get("TMPDIR") or None))
    try:
        shutil.copytree(root / "ford", base / "ford", ignore=shutil.ignore_patterns("__pycache__", "*.pyc", "css", "js", "webfonts", "search"))
        d = root / "docs" / "user_guide"
        if d.is_dir():
            (base / "docs" / "user_guide").mkdir(parents=True)
            for f in d.glob("writing_documentation.rst"):
                shutil.copy(f, base / "docs" / "user_guide" / f.name)
        # a variant may consist of several patches applied one after the other (a fix commit that had a follow-up commit is
        # reverted follow-up first)
        for i, part in enumerate(patch_text.split(PATCH_SEPARATOR)):
            p = base / f"variant{i}.patch"
            p.write_text(part)
            cmd = ["git", "apply", "-C1", "--include=ford/*", "--include=docs/*"] + (["-R"] if reverse else []) + [str(p)]
            r = subprocess.run(cmd, cwd=base, capture_output=True, text=True)
            if r.returncode != 0 and shutil.which("patch"):
                # later commits touched neighbouring lines: retry with fuzzy context
                r = subprocess.run(["patch", "-p1", "--fuzz=3", "--no-backup-if-mismatch", "-s", "-f"] +
                                   (["-R"] if reverse else []) + ["-i", str(p)], cwd=base, capture_output=True, text=True)
            if r.returncode != 0:
                shutil.rmtree(base, ignore_errors=True)
                return None
        return base
    except Exception:
        shutil.rmtree(base, ignore_errors=True)
        raise


def _run_variant(args) -> dict:
    prop, label, root, patch_text, reverse, expect = args
    import importlib
    from .core import evaluate, AnalysisError
    from .ctx import Ctx
    base = _make_variant(Path(root), patch_text, reverse)
    if base is None:
        return {"label": label, "status": "skipped", "why": "patch does not apply to the current tree"}
    try:
        mod = importlib.import_module(f"sa.rules.{prop.lower()}")
        try:
            ctx = Ctx(base)
            rep, err = evaluate(prop, [r for r in mod.RULES if r.tier != "thorough"], ctx, "quick")
        except AnalysisError as e:
            rep, err = None, str(e)
        if err is not None:
            if expect == "SILENT":
                return {"label": label, "status": "FALSE-ALARM", "reports": ["ANALYSIS-ERROR " + err[:160]]}
            return {"label": label, "status": "analysis-error", "why": err[:200]}
        fails = {(o.rule, o.construct) for o in rep.obs if not o.ok}
        known = {(k["rule"], k["construct"]) for k in json.loads((VERIF / "known_findings.json").read_text())["findings"]
                 if k.get("status") == "known"}
        new = sorted(fails - known)
        if expect == "SILENT":
            return {"label": label, "status": "detected" if not new else "FALSE-ALARM", "reports": [f"{r} {c}" for r, c in new][:4]}
        if expect == "OPTIONAL":
            return {"label": label, "status": "detected" if new else "skipped", "why": "" if new else "documented miss",
                    "reports": [f"{r} {c}" for r, c in new][:4]}
        if expect is None:
            ok = bool(new)
        else:
            # the same rule must fire again on a construct that is not a listed known finding (construct keys may
            # have been renamed since the finding was recorded, so the exact key is preferred but not required)
            ok = tuple(expect) in fails or any(r == expect[0] for r, _ in new)
        return {"label": label, "status": "detected" if ok else "MISSED", "reports": [f"{r} {c}" for r, c in new][:4]}
    finally:
        shutil.rmtree(base, ignore_errors=True)


def variants_for(prop: str, root: Path) -> List[tuple]:
    out = []
    sd = VERIF / "seeded"
    if sd.is_dir():
        for d in sorted(sd.iterdir()):
            if d.name.startswith(prop + "_") and (d / "patch.diff").exists():
                mp = d / "meta.json"
                if mp.exists() and json.loads(mp.read_text()).get("retired"):
                    # neutralised by a later fix: now a behaviour-preserving change that must NOT be reported
                    out.append((prop, f"seeded/{d.name} (retired: must stay silent)", str(root), (d / "patch.diff").read_text(), False, "SILENT"))
                    continue
                if mp.exists() and json.loads(mp.read_text()).get("undetected_reason"):
                    # a mutation no clause of this property covers (documented in DESIGN.md): reported, not required
                    out.append((prop, f"seeded/{d.name} (documented miss)", str(root), (d / "patch.diff").read_text(), False, "OPTIONAL"))
                    continue
                out.append((prop, f"seeded/{d.name}", str(root), (d / "patch.diff").read_text(), False, None))
    # behaviour-preserving changes (refactorings, equivalent re-spellings, benign extensions) written by independent
    # agents: every property's rules must stay silent on every one of them
    bd = VERIF / "benign"
    if bd.is_dir():
        for d in sorted(bd.iterdir()):
            if (d / "patch.diff").exists():
                out.append((prop, f"benign/{d.name} (must stay silent)", str(root), (d / "patch.diff").read_text(), False, "SILENT"))
    kf = json.loads((VERIF / "known_findings.json").read_text())["findings"]
    seen = set()
    for k in kf:
        if k["property"] == prop and k.get("status") == "fixed" and k.get("commit"):
            key = (k["commit"], k["rule"], k["construct"])
            if key in seen:
                continue
            seen.add(key)
            texts = []
            for c in list(k.get("revert_with", [])) + [k["commit"]]:      # follow-up commits first (newest first), then the fix
                r = subprocess.run(["git", "-C", str(root), "show", "--format=", c, "--", "ford", "docs"],
                                   capture_output=True, text=True)
                if r.returncode != 0 or not r.stdout.strip():
                    texts = []
                    break
                texts.append(r.stdout)
            if not texts:
                continue
            out.append((prop, f"revert {k['commit']} ({k['rule']} {k['construct'][:50]})", str(root), PATCH_SEPARATOR.join(texts), True,
                        (k["rule"], k["construct"])))
    return out


def run(prop: str, ctx, rep):
    from .core import AnalysisError
    vs = variants_for(prop, ctx.root)
    if not vs:
        rep.ob("self-test variants", True, "no seeded mutation or fixed finding recorded for this property",
               "/verif/seeded", nontrivial=False)
        return
    workers = min(16, len(vs))
    with ProcessPoolExecutor(max_workers=workers) as ex:
        results = list(ex.map(_run_variant, vs))
    missed = [r for r in results if r["status"] in ("MISSED", "FALSE-ALARM")]
    for r in results:
        ok = r["status"] in ("detected", "skipped")
        rep.ob(f"self-test {r['label']}", ok or r["status"] == "analysis-error",
               (r["status"] + (": " + "; ".join(r.get("reports", []))[:200] if r.get("reports") else "") +
                (": " + r.get("why", "") if r.get("why") else "")), "/verif/seeded", nontrivial=r["status"] == "detected")
    rep.stats["selftest"] = {"variants": len(results),
                             "benign_silent": sum(r["status"] == "detected" and "must stay silent" in r["label"] for r in results),
                             "detected": sum(r["status"] == "detected" and "must stay silent" not in r["label"] for r in results),
                             "skipped": sum(r["status"] == "skipped" for r in results),
                             "fail_closed": sum(r["status"] == "analysis-error" for r in results),
                             "skipped_labels": [r["label"] for r in results if r["status"] == "skipped"],
                             "missed": [r["label"] for r in missed]}
    if missed:
        raise AnalysisError("self-test: the rules did not detect variant(s) " + ", ".join(r["label"] for r in missed))
