"""Canonicalisation of the analysed program: private helper functions are inlined at their call sites.

A rule decides a clause about *what the code does on every path*, not about how it is cut into functions.  Extracting
a block into `_helper(...)` (or the reverse) is the most common behaviour-preserving edit, and a rule that reads one
function body loses its subject when that happens.  So before any rule runs, every module AST is brought into a
canonical form: calls of small private helpers (module functions `_f`, methods `self._m`) are replaced by the helper's
body, with

* parameters substituted by the argument expressions (or bound by a prologue assignment when the helper re-assigns the
  parameter or the argument is not a plain name / attribute / constant),
* the helper's locals renamed (`name__helper`) so that nothing is captured,
* `return` eliminated structurally: `t = _f(..)` turns `return x` into `t = x`, a statement call drops the value,
  `return _f(..)` keeps the returns; an early `if c: ...; return` nests the rest of the body under `else`.

Helpers that cannot be lowered that way (a `return` inside a loop / try / with, generators, recursion, *args, more than
MAX_SITES call sites, more than MAX_STMTS statements) are left alone: the analysis then sees a call, as before.
Line numbers of inlined statements are those of the helper; every function that received inlined code is renumbered in
source order (`lineno` is only used by rules to order statements of one function) and keeps the original position of
each node in `orig_lineno` for reporting.

The transformation is purely syntactic, is applied to the ASTs in memory only, and is a semantics-preserving program
transformation of the analysed code (modulo evaluation order of hoisted argument expressions, which no rule depends on).
"""
from __future__ import annotations

import ast
import copy
import os
from typing import Dict, List, Optional, Set, Tuple

MAX_SITES = 6
MAX_STMTS = 45
MAX_ROUNDS = 3
MARKER = "<inlined> "      # a string-constant statement `<inlined> NAME` precedes every expansion


def _is_private(name: str) -> bool:
    return name.startswith("_") and not (name.startswith("__") and name.endswith("__"))


def _own_nodes(fn: ast.AST):
    """nodes of fn without descending into nested function / class definitions"""
    todo = list(ast.iter_child_nodes(fn))
    while todo:
        n = todo.pop()
        yield n
        if isinstance(n, (ast.FunctionDef, ast.AsyncFunctionDef, ast.ClassDef, ast.Lambda)):
            continue
        todo.extend(ast.iter_child_nodes(n))


def _contains(node_or_list, kinds) -> bool:
    items = node_or_list if isinstance(node_or_list, list) else [node_or_list]
    for it in items:
        for n in ast.walk(it):
            if isinstance(n, kinds):
                return True
    return False


def _returns_in(stmts: List[ast.stmt]) -> bool:
    for st in stmts:
        for n in [st] + [x for x in _own_nodes(st)]:
            if isinstance(n, ast.Return):
                return True
    return False


def _return_in_unsupported_position(stmts: List[ast.stmt]) -> bool:
    """a return below a loop / try / with / match cannot be lowered structurally"""
    for st in stmts:
        if isinstance(st, (ast.For, ast.AsyncFor, ast.While, ast.Try, ast.With, ast.AsyncWith)) or st.__class__.__name__ in ("Match", "TryStar"):
            if _returns_in([st]):
                return True
        elif isinstance(st, ast.If):
            if _return_in_unsupported_position(st.body) or _return_in_unsupported_position(st.orelse):
                return True
    return False


def _simple_arg(e: ast.AST) -> bool:
    if isinstance(e, (ast.Name, ast.Constant)):
        return True
    if isinstance(e, ast.Attribute):
        return _simple_arg(e.value)
    return False


class _Rename(ast.NodeTransformer):
    def __init__(self, names: Dict[str, str], subst: Dict[str, ast.AST]):
        self.names, self.subst = names, subst

    def visit_Name(self, n: ast.Name):
        if n.id in self.subst and isinstance(n.ctx, ast.Load):
            return copy.deepcopy(self.subst[n.id])
        if n.id in self.names:
            return ast.copy_location(ast.Name(id=self.names[n.id], ctx=n.ctx), n)
        return n

    def visit_arg(self, a: ast.arg):           # lambda / nested def parameters that shadow: keep (rare)
        return a


def _lower(stmts: List[ast.stmt], sink) -> Optional[List[ast.stmt]]:
    """body with `return` eliminated; sink = ("discard",) | ("assign", [targets]) | ("return",)"""
    if sink[0] == "return":
        return stmts
    out: List[ast.stmt] = []
    for i, st in enumerate(stmts):
        if isinstance(st, ast.Return):
            out += _emit(st, sink)
            return out
        if isinstance(st, ast.If) and _returns_in([st]):
            rest = stmts[i + 1:]
            b = _lower(st.body + rest, sink)
            o = _lower(st.orelse + rest, sink)
            if b is None or o is None:
                return None
            out.append(ast.copy_location(ast.If(test=st.test, body=b or [ast.Pass()], orelse=o), st))
            return out
        out.append(st)
    # fell off the end: implicit `return None`
    if sink[0] == "assign":
        out += _emit(None, sink)
    return out


def _emit(ret: Optional[ast.Return], sink) -> List[ast.stmt]:
    val = ret.value if ret is not None else None
    if sink[0] == "assign":
        v = val if val is not None else ast.Constant(value=None)
        node = ast.Assign(targets=copy.deepcopy(sink[1]), value=v)
        return [ast.copy_location(node, ret) if ret is not None else node]
    if sink[0] == "discard":
        if val is not None and _contains(val, (ast.Call, ast.NamedExpr)):
            return [ast.copy_location(ast.Expr(value=val), ret)]
        return []
    return [ret] if ret is not None else []


class Inliner:
    def __init__(self, modules: Dict[str, ast.Module]):
        self.modules = modules
        self.stats = {"helpers_inlined": 0, "call_sites_inlined": 0, "functions_changed": 0}
        self._expansions: Dict[Tuple[int, str], int] = {}
        self.inlined_names: Set[str] = set()

    # ------------------------------------------------------------------ index
    def _index(self):
        # per-round memo tables (dropped for a function the moment its body is replaced, see run())
        self._elig: Dict[int, bool] = {}
        self._host_stores: Dict[int, Set[str]] = {}
        self._host_closures: Dict[int, Dict[str, list]] = {}
        self.mod_funcs: Dict[Tuple[str, str], ast.FunctionDef] = {}
        self.methods: Dict[str, List[Tuple[str, str, ast.FunctionDef]]] = {}     # name -> [(mod, class, def)]
        self.class_bases: Dict[str, List[str]] = {}
        for mod, tree in self.modules.items():
            for n in tree.body:
                if isinstance(n, ast.FunctionDef):
                    self.mod_funcs[(mod, n.name)] = n
                elif isinstance(n, ast.ClassDef):
                    self.class_bases[n.name] = [b.id if isinstance(b, ast.Name) else getattr(b, "attr", "") for b in n.bases]
                    for m in n.body:
                        if isinstance(m, ast.FunctionDef):
                            self.methods.setdefault(m.name, []).append((mod, n.name, m))

    def _is_subclass(self, a: str, b: str, seen=None) -> bool:
        if a == b:
            return True
        seen = seen or set()
        if a in seen:
            return False
        seen.add(a)
        return any(self._is_subclass(x, b, seen) for x in self.class_bases.get(a, []))

    def _eligible(self, fn: ast.FunctionDef, is_method: bool) -> bool:
        if not _is_private(fn.name):
            return False
        k = id(fn)
        if k not in self._elig:
            self._elig[k] = self._eligible_uncached(fn)
        return self._elig[k]

    def _eligible_uncached(self, fn: ast.FunctionDef) -> bool:
        decos = [ast.unparse(d) for d in fn.decorator_list]
        if any(d not in ("staticmethod",) for d in decos):
            return False
        a = fn.args
        if a.vararg or a.kwarg or a.posonlyargs:
            return False
        body = [st for st in fn.body if not (isinstance(st, ast.Expr) and isinstance(st.value, ast.Constant))]
        if not body or sum(1 for _ in ast.walk(ast.Module(body=body, type_ignores=[])) if isinstance(_, ast.stmt)) > MAX_STMTS:
            return False
        for n in ast.walk(fn):
            if isinstance(n, (ast.Yield, ast.YieldFrom, ast.Await, ast.Global, ast.Nonlocal)):
                return False
            if n is not fn and isinstance(n, (ast.FunctionDef, ast.AsyncFunctionDef, ast.ClassDef)):
                return False
        # not (directly) recursive
        for c in ast.walk(fn):
            if isinstance(c, ast.Call):
                f = c.func
                if (isinstance(f, ast.Name) and f.id == fn.name) or (isinstance(f, ast.Attribute) and f.attr == fn.name):
                    return False
        return True

    # ------------------------------------------------------------------ call resolution
    def _resolve(self, call: ast.Call, mod: str, cls: Optional[str], host: ast.FunctionDef) -> Optional[Tuple[ast.FunctionDef, Optional[ast.AST]]]:
        f = call.func
        if any(isinstance(a, ast.Starred) for a in call.args) or any(k.arg is None for k in call.keywords):
            return None
        if isinstance(f, ast.Name):
            fn = self.mod_funcs.get((mod, f.id))
            if fn is None or fn is host:
                return None
            # shadowed by a local / parameter of the host?  (stores added by expansions carry a `__helper` suffix and can
            # never spell a module-level function, so the set is computed once per host and round)
            stores = self._host_stores.get(id(host))
            if stores is None:
                stores = self._host_stores[id(host)] = {n.id for n in _own_nodes(host)
                                                        if isinstance(n, ast.Name) and isinstance(n.ctx, ast.Store)}
            if f.id in stores:
                return None
            if f.id in [a.arg for a in host.args.args + host.args.kwonlyargs]:
                return None
            return (fn, None) if self._eligible(fn, False) else None
        if isinstance(f, ast.Attribute) and isinstance(f.value, ast.Name) and f.value.id == "self" and cls is not None:
            defs = self.methods.get(f.attr, [])
            if len(defs) != 1:
                return None            # overridden somewhere: dynamic dispatch, do not guess
            dmod, dcls, fn = defs[0]
            if fn is host or not self._is_subclass(cls, dcls):
                return None
            if not fn.args.args or fn.args.args[0].arg != "self":
                if "staticmethod" not in [ast.unparse(d) for d in fn.decorator_list]:
                    return None
            return (fn, f.value) if self._eligible(fn, True) else None
        return None

    # ------------------------------------------------------------------ one call site
    def _bind(self, call: ast.Call, fn: ast.FunctionDef, receiver: Optional[ast.AST]):
        params = [a.arg for a in fn.args.args]
        is_static = "staticmethod" in [ast.unparse(d) for d in fn.decorator_list]
        bound: Dict[str, ast.AST] = {}
        pos = list(call.args)
        plist = params[:]
        if receiver is not None and not is_static:
            bound[plist.pop(0)] = receiver
        if len(pos) > len(plist):
            return None
        for p, a in zip(plist, pos):
            bound[p] = a
        kwonly = [a.arg for a in fn.args.kwonlyargs]
        for k in call.keywords:
            if k.arg in bound or k.arg not in plist + kwonly:
                return None
            bound[k.arg] = k.value
        defaults = dict(zip(params[len(params) - len(fn.args.defaults):], fn.args.defaults))
        for a, d in zip(fn.args.kwonlyargs, fn.args.kw_defaults):
            if d is not None:
                defaults[a.arg] = d
        for p in (plist if receiver is None or is_static else params[1:]) + kwonly:
            if p not in bound:
                if p not in defaults:
                    return None
                bound[p] = defaults[p]
        return bound

    def _expand(self, call: ast.Call, fn: ast.FunctionDef, receiver, sink, tag: str, host=None) -> Optional[List[ast.stmt]]:
        bound = self._bind(call, fn, receiver)
        if bound is None:
            return None
        body = [st for st in fn.body if not (isinstance(st, ast.Expr) and isinstance(st.value, ast.Constant))]
        if sink[0] != "return" and _return_in_unsupported_position(body):
            return None
        body = copy.deepcopy(body)
        stored = {n.id for st in body for n in ast.walk(st) if isinstance(n, ast.Name) and isinstance(n.ctx, (ast.Store, ast.Del))}
        stored |= {n.target.id for st in body for n in ast.walk(st) if isinstance(n, ast.NamedExpr)}
        # locals of the helper get a suffix that is unique per expansion within the host (two expansions of one helper in the
        # same function must not share their temporaries)
        k = self._expansions.get((id(host), fn.name), 0) + 1
        self._expansions[(id(host), fn.name)] = k
        suffix = f"__{fn.name.strip('_')}" + (str(k) if k > 1 else "")
        names = {nm: nm + suffix for nm in stored if nm not in bound}
        subst: Dict[str, ast.AST] = {}
        prologue: List[ast.stmt] = []
        for p, a in bound.items():
            if p not in stored and _simple_arg(a):
                subst[p] = a
            else:
                names[p] = p + suffix
                prologue.append(ast.copy_location(ast.Assign(targets=[ast.Name(id=p + suffix, ctx=ast.Store())], value=copy.deepcopy(a)), call))
        rn = _Rename(names, subst)
        body = [rn.visit(st) for st in body]
        lowered = _lower(body, sink)
        if lowered is None:
            return None
        marker = ast.copy_location(ast.Expr(value=ast.Constant(value=f"{MARKER}{fn.name}")), call)
        out = [marker] + prologue + lowered
        for st in out:
            ast.fix_missing_locations(st)
        return out or [ast.copy_location(ast.Pass(), call)]

    # ------------------------------------------------------------------ expression-level inlining
    def _inline_expressions(self, st: ast.stmt, mod, cls, host, counts) -> bool:
        """calls of helpers whose body is a single `return <expr>` are replaced by that expression wherever they occur in
        the statement's own expressions (conditions included)"""
        owner = self
        changed = [False]

        class T(ast.NodeTransformer):
            def generic_visit(self, node):
                # do not descend into nested statements: they are handled by the block walk
                for field, old in ast.iter_fields(node):
                    if isinstance(old, list):
                        if old and isinstance(old[0], ast.stmt):
                            continue
                        new = []
                        for v in old:
                            if isinstance(v, ast.AST):
                                v = self.visit(v)
                            new.append(v)
                        old[:] = new
                    elif isinstance(old, ast.AST):
                        setattr(node, field, self.visit(old))
                return node

            def visit_Attribute(self, a: ast.Attribute):
                self.generic_visit(a)
                # a private read-only property that is a single `return <expr>`: self._flag -> <expr>
                if isinstance(a.ctx, ast.Load) and isinstance(a.value, ast.Name) and a.value.id == "self" and cls is not None \
                        and _is_private(a.attr):
                    defs = owner.methods.get(a.attr, [])
                    if len(defs) == 1 and owner._is_subclass(cls, defs[0][1]) and defs[0][2] is not host and \
                            [ast.unparse(d) for d in defs[0][2].decorator_list] == ["property"]:
                        body = [x for x in defs[0][2].body if not (isinstance(x, ast.Expr) and isinstance(x.value, ast.Constant))]
                        if len(body) == 1 and isinstance(body[0], ast.Return) and body[0].value is not None and \
                                not any(isinstance(n, (ast.NamedExpr, ast.Lambda, ast.Yield, ast.Await)) for n in ast.walk(body[0].value)):
                            owner.inlined_names.add(a.attr)
                            owner.stats["call_sites_inlined"] += 1
                            changed[0] = True
                            return ast.copy_location(copy.deepcopy(body[0].value), a)
                return a

            def visit_Call(self, c: ast.Call):
                self.generic_visit(c)
                r = owner._resolve(c, mod, cls, host)
                if r is None and isinstance(c.func, ast.Name):
                    # a closure of the host that is a single `return <expr>`: `def is_public(name): return a or name in b`
                    closures = owner._host_closures.get(id(host))
                    if closures is None:
                        closures = owner._host_closures[id(host)] = {}
                        for n in ast.walk(host):
                            if isinstance(n, ast.FunctionDef) and n is not host:
                                closures.setdefault(n.name, []).append(n)
                    local = closures.get(c.func.id, [])
                    if len(local) == 1 and not local[0].decorator_list and not local[0].args.vararg and not local[0].args.kwarg \
                            and not any(isinstance(a, ast.Starred) for a in c.args) and all(k.arg for k in c.keywords):
                        r = (local[0], None)
                if r is None or counts.get(id(r[0]), 0) > MAX_SITES:
                    return c
                fn, recv = r
                body = [x for x in fn.body if not (isinstance(x, ast.Expr) and isinstance(x.value, ast.Constant))]
                if len(body) != 1 or not isinstance(body[0], ast.Return) or body[0].value is None:
                    return c
                bound = owner._bind(c, fn, recv)
                if bound is None:
                    return c
                e = copy.deepcopy(body[0].value)
                if any(isinstance(n, (ast.NamedExpr, ast.Lambda)) for n in ast.walk(e)):
                    return c
                uses = {p: sum(1 for n in ast.walk(e) if isinstance(n, ast.Name) and n.id == p) for p in bound}
                if any(not _simple_arg(a) and uses[p] > 1 for p, a in bound.items()):
                    return c
                # names bound inside the expression (comprehension variables) must not collide with argument names
                inner = {n.id for n in ast.walk(e) if isinstance(n, ast.Name) and isinstance(n.ctx, ast.Store)}
                if inner & {n.id for a in bound.values() for n in ast.walk(a) if isinstance(n, ast.Name)}:
                    return c
                e = _Rename({}, bound).visit(e)
                owner.inlined_names.add(fn.name)
                owner.stats["call_sites_inlined"] += 1
                changed[0] = True
                return ast.copy_location(e, c)

        T().generic_visit(st)
        return changed[0]

    def _hoist_calls(self, st: ast.stmt, mod, cls, host, counts) -> List[ast.stmt]:
        if isinstance(st, ast.For):
            roots = [("iter", st.iter)]
        elif isinstance(st, ast.If):
            roots = [("test", st.test)]
        elif isinstance(st, (ast.Assign, ast.AugAssign, ast.AnnAssign, ast.Expr, ast.Return)) and getattr(st, "value", None) is not None:
            roots = [("value", st.value)]
        else:
            return []
        new_stmts: List[ast.stmt] = []
        owner = self

        class H(ast.NodeTransformer):
            def visit_BoolOp(self, n):      # short-circuit: operands after the first may not be evaluated
                n.values[0] = self.visit(n.values[0])
                return n

            def visit_IfExp(self, n):
                n.test = self.visit(n.test)
                return n

            def visit_Lambda(self, n):
                return n

            def visit_ListComp(self, n):
                return n
            visit_SetComp = visit_DictComp = visit_GeneratorExp = visit_ListComp

            def visit_Call(self, c):
                self.generic_visit(c)
                r = owner._resolve(c, mod, cls, host)
                if r is None or counts.get(id(r[0]), 0) > MAX_SITES:
                    return c
                body = [x for x in r[0].body if not (isinstance(x, ast.Expr) and isinstance(x.value, ast.Constant))]
                if len(body) == 1 and isinstance(body[0], ast.Return):
                    return c          # handled by expression-level inlining
                if _return_in_unsupported_position(body):
                    return c
                owner._tmp = getattr(owner, "_tmp", 0) + 1
                tmp = f"value{owner._tmp}__{r[0].name.strip('_')}"
                new_stmts.append(ast.copy_location(ast.Assign(targets=[ast.Name(id=tmp, ctx=ast.Store())], value=c), c))
                return ast.copy_location(ast.Name(id=tmp, ctx=ast.Load()), c)

        for field, root in roots:
            if isinstance(root, ast.Call) and field == "value" and isinstance(st, (ast.Assign, ast.Expr, ast.Return)):
                # the call itself is the whole right-hand side: handled by statement-level inlining; look at its arguments only
                root.args = [H().visit(a) for a in root.args]
                for k in root.keywords:
                    k.value = H().visit(k.value)
            else:
                setattr(st, field, H().visit(root))
        for n in new_stmts:
            ast.fix_missing_locations(n)
        return new_stmts

    # ------------------------------------------------------------------ driver
    def _process_block(self, stmts: List[ast.stmt], mod, cls, host, counts) -> Tuple[List[ast.stmt], bool]:
        changed = False
        out: List[ast.stmt] = []
        for st in stmts:
            # recurse into compound statements first
            for field in ("body", "orelse", "finalbody"):
                blk = getattr(st, field, None)
                if isinstance(blk, list) and blk and isinstance(blk[0], ast.stmt) and not isinstance(st, (ast.FunctionDef, ast.AsyncFunctionDef, ast.ClassDef)):
                    nb, ch = self._process_block(blk, mod, cls, host, counts)
                    if ch:
                        setattr(st, field, nb)
                        changed = True
            if isinstance(st, ast.Try):
                for h in st.handlers:
                    nb, ch = self._process_block(h.body, mod, cls, host, counts)
                    if ch:
                        h.body = nb
                        changed = True
            if not isinstance(st, (ast.FunctionDef, ast.AsyncFunctionDef, ast.ClassDef)):
                if self._inline_expressions(st, mod, cls, host, counts):
                    changed = True
                # a multi-statement helper called inside an expression that is evaluated exactly once when the statement is
                # reached (loop iterable, if-test, right-hand side, call argument): its value is computed into a temporary first
                hoisted = self._hoist_calls(st, mod, cls, host, counts)
                if hoisted:
                    nb, _ch = self._process_block(hoisted, mod, cls, host, counts)
                    out += nb
                    changed = True
            repl = None
            call, sink = None, None
            if isinstance(st, ast.Expr) and isinstance(st.value, ast.Call):
                virt = self._devirtualise(st.value, mod, cls, host)
                if virt is not None:
                    out += virt
                    changed = True
                    continue
                call, sink = st.value, ("discard",)
            elif isinstance(st, ast.Assign) and isinstance(st.value, ast.Call):
                virt = self._devirtualise(st.value, mod, cls, host, ("assign", st.targets))
                if virt is not None:
                    out += virt
                    changed = True
                    continue
                call, sink = st.value, ("assign", st.targets)
            elif isinstance(st, ast.Return) and isinstance(st.value, ast.Call):
                call, sink = st.value, ("return",)
            if call is not None:
                r = self._resolve(call, mod, cls, host)
                if r is not None and counts.get(id(r[0]), 0) <= MAX_SITES:
                    repl = self._expand(call, r[0], r[1], sink, r[0].name, host)
                    if repl is not None:
                        self.inlined_names.add(r[0].name)
                        self.stats["call_sites_inlined"] += 1
            if repl is not None:
                out += repl
                changed = True
            else:
                out.append(st)
        return out, changed

    def _devirtualise(self, call: ast.Call, mod, cls, host, sink=("discard",)) -> Optional[List[ast.stmt]]:
        """A statement `self._hook(args)` (or `x = self._hook(args)`) whose private method is defined for the host's class and
        overridden in one or two subclasses is the template-method spelling of an isinstance dispatch:
            if isinstance(self, Sub): <Sub._hook inlined>  else: <Base._hook inlined>"""
        f = call.func
        if not (isinstance(f, ast.Attribute) and isinstance(f.value, ast.Name) and f.value.id == "self" and cls is not None
                and _is_private(f.attr)):
            return None
        if any(isinstance(a, ast.Starred) for a in call.args) or any(k.arg is None for k in call.keywords):
            return None
        defs = self.methods.get(f.attr, [])
        if len(defs) < 2:
            return None
        bases = [d for d in defs if self._is_subclass(cls, d[1])]
        subs = [d for d in defs if d[1] != cls and self._is_subclass(d[1], cls)]
        if not bases or not (1 <= len(subs) <= 2):
            return None
        base = next((b for b in bases if all(self._is_subclass(b[1], o[1]) for o in bases)), None)
        if base is None or any(a is not b and self._is_subclass(a[1], b[1]) for a in subs for b in subs):
            return None
        if any(d[2] is host for d in [base] + subs):
            return None

        def body_of(fn):
            return [x for x in fn.body if not (isinstance(x, ast.Expr) and isinstance(x.value, ast.Constant)) and not isinstance(x, ast.Pass)]

        def expand(fn):
            if fn.decorator_list or (fn.args.args and fn.args.args[0].arg != "self"):
                return None
            if not body_of(fn):
                return [ast.copy_location(ast.Pass(), call)] if sink[0] == "discard" else None
            if not self._eligible(fn, True):
                return None
            return self._expand(call, fn, f.value, sink, fn.name, host)
        alts = []
        for d in subs + [base]:
            e = expand(d[2])
            if e is None:
                return None
            alts.append((d[1], e))
        orelse = alts[-1][1]
        for sub_cls, e in reversed(alts[:-1]):
            test = ast.Call(func=ast.Name(id="isinstance", ctx=ast.Load()),
                            args=[ast.Name(id="self", ctx=ast.Load()), ast.Name(id=sub_cls, ctx=ast.Load())], keywords=[])
            orelse = [ast.copy_location(ast.If(test=test, body=e, orelse=orelse), call)]
        marker = ast.copy_location(ast.Expr(value=ast.Constant(value=f"{MARKER}{f.attr}")), call)
        res = [marker] + orelse
        for x in res:
            ast.fix_missing_locations(x)
        self.inlined_names.add(f.attr)
        self.stats["call_sites_inlined"] += 1
        self.stats["dispatches_devirtualised"] = self.stats.get("dispatches_devirtualised", 0) + 1
        return res

    def _call_counts(self) -> Dict[int, int]:
        counts: Dict[int, int] = {}
        for mod, tree in self.modules.items():
            for cls, host in self._hosts(tree):
                for c in ast.walk(host):
                    if isinstance(c, ast.Call):
                        r = self._resolve(c, mod, cls, host)
                        if r is not None:
                            counts[id(r[0])] = counts.get(id(r[0]), 0) + 1
        return counts

    @staticmethod
    def _hosts(tree: ast.Module):
        for n in tree.body:
            if isinstance(n, ast.FunctionDef):
                yield None, n
            elif isinstance(n, ast.ClassDef):
                for m in n.body:
                    if isinstance(m, ast.FunctionDef):
                        yield n.name, m

    def run(self) -> dict:
        if os.environ.get("SA_NO_INLINE"):
            return self.stats
        changed_fns: Set[int] = set()
        for _ in range(MAX_ROUNDS):
            self._index()
            counts = self._call_counts()
            any_change = False
            for mod, tree in self.modules.items():
                for cls, host in self._hosts(tree):
                    nb, ch = self._process_block(host.body, mod, cls, host, counts)
                    if ch:
                        host.body = nb
                        changed_fns.add(id(host))
                        any_change = True
                        self._elig.pop(id(host), None)
            if not any_change:
                break
        # renumber the functions that received inlined code
        for mod, tree in self.modules.items():
            for cls, host in self._hosts(tree):
                if id(host) in changed_fns:
                    _renumber(host)
        self.stats["functions_changed"] = len(changed_fns)
        self.stats["helpers_inlined"] = len(self.inlined_names)
        # helpers of which no call is left anywhere: their definitions are dead code in the canonical form
        self._index()
        remaining = self._call_counts()
        referenced = {n.id for t in self.modules.values() for n in ast.walk(t) if isinstance(n, ast.Name)} | \
            {n.attr for t in self.modules.values() for n in ast.walk(t) if isinstance(n, ast.Attribute)}
        self.fully_inlined = set()
        for mod, tree in self.modules.items():
            for cls, fn in self._hosts(tree):
                if fn.name in self.inlined_names and remaining.get(id(fn), 0) == 0 and fn.name not in referenced:
                    self.fully_inlined.add((mod, cls, fn.name))
        self.stats["fully_inlined"] = sorted(f"{c + '.' if c else ''}{n}" for _m, c, n in self.fully_inlined)
        return self.stats


def _renumber(fn: ast.FunctionDef) -> None:
    """statements of fn get consecutive line numbers in source order (starting at the function's own line); every node
    keeps its original line in `orig_lineno`"""
    counter = [fn.lineno]

    def stamp(node: ast.AST, line: int):
        for n in ast.walk(node):
            if isinstance(n, ast.stmt) and n is not node:
                continue
            if hasattr(n, "lineno"):
                if not hasattr(n, "orig_lineno"):
                    n.orig_lineno = n.lineno
                n.lineno = line
                n.end_lineno = line

    def walk_block(stmts: List[ast.stmt]):
        for st in stmts:
            counter[0] += 1
            line = counter[0]
            # expressions that belong to this statement (not to nested statements)
            if not hasattr(st, "orig_lineno"):
                st.orig_lineno = getattr(st, "lineno", line)
            st.lineno = line
            st.end_lineno = line
            for field, value in ast.iter_fields(st):
                if isinstance(value, list) and value and isinstance(value[0], ast.stmt):
                    continue
                vals = value if isinstance(value, list) else [value]
                for v in vals:
                    if isinstance(v, ast.ExceptHandler):
                        continue
                    if isinstance(v, ast.AST):
                        for n in ast.walk(v):
                            if hasattr(n, "lineno"):
                                if not hasattr(n, "orig_lineno"):
                                    n.orig_lineno = n.lineno
                                n.lineno = line
                                n.end_lineno = line
            for field in ("body", "orelse", "finalbody"):
                blk = getattr(st, field, None)
                if isinstance(blk, list) and blk and isinstance(blk[0], ast.stmt):
                    walk_block(blk)
            if isinstance(st, ast.Try):
                for h in st.handlers:
                    counter[0] += 1
                    if not hasattr(h, "orig_lineno"):
                        h.orig_lineno = getattr(h, "lineno", counter[0])
                    h.lineno = counter[0]
                    if h.type is not None:
                        for n in ast.walk(h.type):
                            if hasattr(n, "lineno"):
                                n.orig_lineno = getattr(n, "orig_lineno", n.lineno)
                                n.lineno = counter[0]
                    walk_block(h.body)
    if not hasattr(fn, "orig_lineno"):
        fn.orig_lineno = fn.lineno
    walk_block(fn.body)


# ---------------------------------------------------------------------------------------------------------------------
# second canonicalisation: a condition hoisted into a named local is put back where it is tested
PURE_CALLS = {"bool", "getattr", "hasattr", "isinstance", "len", "callable", "issubclass", "any", "all", "str", "int"}


def _pure_expr(e: ast.AST) -> bool:
    for n in ast.walk(e):
        if isinstance(n, ast.Call):
            f = n.func
            if not (isinstance(f, ast.Name) and f.id in PURE_CALLS):
                return False
        if isinstance(n, (ast.NamedExpr, ast.Lambda, ast.Await, ast.Yield, ast.YieldFrom, ast.ListComp, ast.SetComp, ast.DictComp,
                          ast.GeneratorExp)):
            return False
    return True


def _bindings(fn: ast.FunctionDef) -> Dict[str, int]:
    cnt: Dict[str, int] = {}
    for n in _own_nodes(fn):
        if isinstance(n, ast.Name) and isinstance(n.ctx, (ast.Store, ast.Del)):
            cnt[n.id] = cnt.get(n.id, 0) + 1
        elif isinstance(n, ast.NamedExpr):
            pass      # its target is a Name with Store ctx, counted above
    for a in fn.args.args + fn.args.kwonlyargs + fn.args.posonlyargs:
        cnt[a.arg] = cnt.get(a.arg, 0) + 1
    if fn.args.vararg:
        cnt[fn.args.vararg.arg] = 1
    if fn.args.kwarg:
        cnt[fn.args.kwarg.arg] = 1
    return cnt


def propagate_condition_locals(fn: ast.FunctionDef) -> int:
    """`flag = <pure boolean expression>` ... `if flag:`  ->  `if <pure boolean expression>:` when flag and everything the
    expression reads are bound exactly once in fn (so moving the expression to its use cannot change its value)"""
    done = 0
    for _ in range(3):
        cnt = _bindings(fn)
        defs: Dict[str, ast.Assign] = {}
        for n in _own_nodes(fn):
            if isinstance(n, ast.Assign) and len(n.targets) == 1 and isinstance(n.targets[0], ast.Name) and cnt.get(n.targets[0].id) == 1 \
                    and isinstance(n.value, (ast.BoolOp, ast.Compare, ast.UnaryOp, ast.Call, ast.Attribute)) and _pure_expr(n.value):
                defs[n.targets[0].id] = n
        if not defs:
            break
        changed = [0]
        stores: Dict[str, List[int]] = {}
        for n in _own_nodes(fn):
            if isinstance(n, ast.Name) and isinstance(n.ctx, (ast.Store, ast.Del)):
                stores.setdefault(n.id, []).append(getattr(n, "lineno", 0))

        def stable(d: ast.Assign, use_line: int) -> bool:
            """nothing the expression reads is re-bound between its definition and the use"""
            dl = getattr(d, "lineno", 0)
            for x in ast.walk(d.value):
                if isinstance(x, ast.Name) and any(dl < ln <= use_line for ln in stores.get(x.id, [])):
                    return False
            return True

        class T(ast.NodeTransformer):
            def __init__(self):
                self.in_test = 0

            def visit_FunctionDef(self, node):
                return node if node is not fn else self.generic_visit(node)

            def visit_Lambda(self, node):
                return node

            def _test(self, t):
                self.in_test += 1
                r = self.visit(t)
                self.in_test -= 1
                return r

            def visit_If(self, node):
                node.test = self._test(node.test)
                node.body = [self.visit(x) for x in node.body]
                node.orelse = [self.visit(x) for x in node.orelse]
                return node

            def visit_While(self, node):
                node.test = self._test(node.test)
                node.body = [self.visit(x) for x in node.body]
                node.orelse = [self.visit(x) for x in node.orelse]
                return node

            def visit_IfExp(self, node):
                node.test = self._test(node.test)
                node.body = self.visit(node.body)
                node.orelse = self.visit(node.orelse)
                return node

            def visit_Call(self, node):
                # arguments of a call are not "tested": leave them
                saved, self.in_test = self.in_test, 0
                r = self.generic_visit(node)
                self.in_test = saved
                return r

            def visit_Compare(self, node):
                saved, self.in_test = self.in_test, 0
                r = self.generic_visit(node)
                self.in_test = saved
                return r

            def visit_Name(self, node):
                if self.in_test and isinstance(node.ctx, ast.Load) and node.id in defs and \
                        getattr(node, "lineno", 0) >= getattr(defs[node.id], "lineno", 0) and \
                        stable(defs[node.id], getattr(node, "lineno", 0)):
                    changed[0] += 1
                    return ast.copy_location(copy.deepcopy(defs[node.id].value), node)
                return node

        T().visit(fn)
        done += changed[0]
        if not changed[0]:
            break
    return done


def splice_literal_stars(fn: ast.FunctionDef) -> int:
    """`f(*(a, b))` is `f(a, b)` (what a loop over a table of argument tuples leaves behind when it is unrolled)"""
    n_ = 0
    for c in ast.walk(fn):
        if isinstance(c, ast.Call) and any(isinstance(a, ast.Starred) and isinstance(a.value, (ast.Tuple, ast.List)) for a in c.args):
            new = []
            for a in c.args:
                if isinstance(a, ast.Starred) and isinstance(a.value, (ast.Tuple, ast.List)):
                    new.extend(a.value.elts)
                    n_ += 1
                else:
                    new.append(a)
            c.args = new
    return n_


def reduce_lambda_calls(fn: ast.FunctionDef) -> int:
    """`f = lambda x: E` ... `f(a)`  ->  `E[x := a]` when f is bound exactly once (what remains of a callback parameter
    after its helper was inlined)"""
    cnt = _bindings(fn)
    lam = {n.targets[0].id: n.value for n in _own_nodes(fn)
           if isinstance(n, ast.Assign) and len(n.targets) == 1 and isinstance(n.targets[0], ast.Name)
           and isinstance(n.value, ast.Lambda) and cnt.get(n.targets[0].id) == 1
           and not n.value.args.vararg and not n.value.args.kwarg and not n.value.args.kwonlyargs and not n.value.args.defaults}
    if not lam:
        return 0
    done = [0]

    class T(ast.NodeTransformer):
        def visit_Call(self, c: ast.Call):
            self.generic_visit(c)
            if isinstance(c.func, ast.Name) and c.func.id in lam and not c.keywords and \
                    len(c.args) == len(lam[c.func.id].args.args) and not any(isinstance(a, ast.Starred) for a in c.args):
                L = lam[c.func.id]
                params = [a.arg for a in L.args.args]
                body = copy.deepcopy(L.body)
                uses = {p: sum(1 for n in ast.walk(body) if isinstance(n, ast.Name) and n.id == p) for p in params}
                if any(not _simple_arg(a) and uses[p] > 1 for p, a in zip(params, c.args)):
                    return c
                done[0] += 1
                return ast.copy_location(_Rename({}, dict(zip(params, c.args))).visit(body), c)
            return c
    T().visit(fn)
    return done[0]


def reduce_partial_calls(fn: ast.FunctionDef) -> int:
    """`f = partial(g, a, k=v)` ... `f(b, m=w)`  ->  `g(a, b, k=v, m=w)` when f is bound exactly once and the frozen arguments
    are plain (names, attributes, constants): a keyword given at the call replaces the frozen one, as partial() does"""
    cnt = _bindings(fn)
    par = {}
    for n in _own_nodes(fn):
        if isinstance(n, ast.Assign) and len(n.targets) == 1 and isinstance(n.targets[0], ast.Name) and isinstance(n.value, ast.Call) \
                and ast.unparse(n.value.func) in ("partial", "functools.partial") and n.value.args and cnt.get(n.targets[0].id) == 1 \
                and isinstance(n.value.args[0], (ast.Name, ast.Attribute)) \
                and not any(isinstance(a, ast.Starred) for a in n.value.args) and all(k.arg for k in n.value.keywords) \
                and all(_simple_arg(a) for a in n.value.args[1:]) and all(_simple_arg(k.value) for k in n.value.keywords):
            par[n.targets[0].id] = n.value
    if not par:
        return 0
    done = 0
    for c in ast.walk(fn):
        if isinstance(c, ast.Call) and isinstance(c.func, ast.Name) and c.func.id in par and \
                not any(isinstance(a, ast.Starred) for a in c.args) and all(k.arg for k in c.keywords):
            p = par[c.func.id]
            given = {k.arg for k in c.keywords}
            c.func = copy.deepcopy(p.args[0])
            c.args = [copy.deepcopy(a) for a in p.args[1:]] + c.args
            c.keywords = c.keywords + [copy.deepcopy(k) for k in p.keywords if k.arg not in given]
            ast.fix_missing_locations(c)
            done += 1
    return done


# ---------------------------------------------------------------------------------------------------------------------
# third canonicalisation: a loop over a small constant table is unrolled, getattr/setattr with a constant name become
# attribute accesses
MAX_UNROLL = 8


def _const_table(e: ast.AST, local_defs: Dict[str, ast.AST], module_consts: Dict[str, ast.AST]) -> Optional[List[ast.AST]]:
    """elements of a literal tuple/list of constants (or tuples of constants), given directly or through a name that is
    bound once to such a literal"""
    if isinstance(e, ast.Name):
        e = local_defs.get(e.id) or module_consts.get(e.id)
        if e is None:
            return None
    if isinstance(e, (ast.Tuple, ast.List)) and 0 < len(e.elts) <= MAX_UNROLL:
        def const(x):
            return isinstance(x, ast.Constant) or (isinstance(x, (ast.Tuple, ast.List)) and all(const(y) for y in x.elts))
        if all(const(x) for x in e.elts):
            return list(e.elts)

        # a table of rows whose cells are side-effect free expressions (`(_dashed_edge, sorted(getattr(node, "used_by", [])))`):
        # evaluating a cell where it is used instead of when the table is built gives the same value as long as the loop body
        # does not rebind what the cell reads (checked by the caller)
        def pure_cell(x) -> bool:
            if isinstance(x, (ast.Constant, ast.Name)):
                return True
            if isinstance(x, ast.Attribute):
                return pure_cell(x.value)
            if isinstance(x, (ast.Tuple, ast.List)):
                return all(pure_cell(y) for y in x.elts)
            if isinstance(x, ast.Call) and isinstance(x.func, ast.Name) and x.func.id in (PURE_CALLS | {"sorted", "list", "tuple", "reversed"}):
                return all(pure_cell(a) for a in x.args) and all(pure_cell(k.value) for k in x.keywords)
            return False
        if all(isinstance(x, (ast.Tuple, ast.List)) and x.elts and all(pure_cell(y) for y in x.elts) for x in e.elts):
            return list(e.elts)
    return None


def _bind_target(t: ast.AST, v: ast.AST, out: Dict[str, ast.AST]) -> bool:
    if isinstance(t, ast.Name):
        out[t.id] = v
        return True
    if isinstance(t, (ast.Tuple, ast.List)):
        if isinstance(v, (ast.Tuple, ast.List)) and len(v.elts) == len(t.elts):
            return all(_bind_target(a, b, out) for a, b in zip(t.elts, v.elts))
        return False
    return False


class _FoldAttr(ast.NodeTransformer):
    def visit_Call(self, c: ast.Call):
        self.generic_visit(c)
        if isinstance(c.func, ast.Name) and c.func.id == "getattr" and len(c.args) == 2 and not c.keywords and \
                isinstance(c.args[1], ast.Constant) and isinstance(c.args[1].value, str) and c.args[1].value.isidentifier():
            return ast.copy_location(ast.Attribute(value=c.args[0], attr=c.args[1].value, ctx=ast.Load()), c)
        return c

    def visit_Expr(self, st: ast.Expr):
        self.generic_visit(st)
        c = st.value
        if isinstance(c, ast.Call) and isinstance(c.func, ast.Name) and c.func.id == "setattr" and len(c.args) == 3 and \
                isinstance(c.args[1], ast.Constant) and isinstance(c.args[1].value, str) and c.args[1].value.isidentifier():
            tgt = ast.Attribute(value=c.args[0], attr=c.args[1].value, ctx=ast.Store())
            return ast.copy_location(ast.Assign(targets=[tgt], value=c.args[2]), st)
        return st


def unroll_constant_loops(fn: ast.FunctionDef, module_consts: Dict[str, ast.AST]) -> int:
    cnt = _bindings(fn)
    local_defs = {n.targets[0].id: n.value for n in _own_nodes(fn)
                  if isinstance(n, ast.Assign) and len(n.targets) == 1 and isinstance(n.targets[0], ast.Name)
                  and cnt.get(n.targets[0].id) == 1}
    done = [0]

    def expand(loop: ast.For) -> Optional[List[ast.stmt]]:
        if loop.orelse or _contains(loop.body, (ast.Break, ast.Continue, ast.FunctionDef, ast.Lambda)):
            return None
        it = loop.iter
        rows: Optional[List[Dict[str, ast.AST]]] = None
        tbl = _const_table(it, local_defs, module_consts)
        if tbl is not None:
            rows = []
            for el in tbl:
                b: Dict[str, ast.AST] = {}
                if not _bind_target(loop.target, el, b):
                    return None
                rows.append(b)
        elif isinstance(it, ast.Call) and isinstance(it.func, ast.Name) and it.func.id in ("zip", "enumerate") and not it.keywords:
            if it.func.id == "enumerate" and len(it.args) == 1:
                tbl = _const_table(it.args[0], local_defs, module_consts)
                if tbl is None or not (isinstance(loop.target, ast.Tuple) and len(loop.target.elts) == 2):
                    return None
                rows = []
                for i, el in enumerate(tbl):
                    b = {}
                    if not (_bind_target(loop.target.elts[0], ast.Constant(value=i), b) and _bind_target(loop.target.elts[1], el, b)):
                        return None
                    rows.append(b)
            elif it.func.id == "zip" and len(it.args) >= 2 and isinstance(loop.target, ast.Tuple) and len(loop.target.elts) == len(it.args):
                tables = [_const_table(a, local_defs, module_consts) for a in it.args]
                known = [t for t in tables if t is not None]
                if not known:
                    return None
                n = min(len(t) for t in known)
                rows = []
                for i in range(n):
                    b = {}
                    for tgt, a, t in zip(loop.target.elts, it.args, tables):
                        el = t[i] if t is not None else ast.Subscript(value=copy.deepcopy(a), slice=ast.Constant(value=i), ctx=ast.Load())
                        if t is None and not isinstance(a, (ast.Name, ast.Attribute)):
                            return None
                        if not _bind_target(tgt, el, b):
                            return None
                    rows.append(b)
        if rows is None:
            return None
        # the loop variables must not be assigned in the body
        stored = {n.id for st in loop.body for n in ast.walk(st) if isinstance(n, ast.Name) and isinstance(n.ctx, ast.Store)}
        if stored & set().union(*[set(r) for r in rows]):
            return None
        # cells that are expressions: nothing they read may be rebound in the body
        read = {n.id for r in rows for v in r.values() for n in ast.walk(v) if isinstance(n, ast.Name)}
        if stored & read:
            return None
        out: List[ast.stmt] = []
        for r in rows:
            for st in loop.body:
                st2 = _Rename({}, r).visit(copy.deepcopy(st))
                st2 = _FoldAttr().visit(st2)
                ast.fix_missing_locations(st2)
                out.append(st2)
        done[0] += 1
        return out

    def block(stmts: List[ast.stmt]) -> List[ast.stmt]:
        res: List[ast.stmt] = []
        for st in stmts:
            for field in ("body", "orelse", "finalbody"):
                blk = getattr(st, field, None)
                if isinstance(blk, list) and blk and isinstance(blk[0], ast.stmt) and not isinstance(st, (ast.FunctionDef, ast.ClassDef)):
                    setattr(st, field, block(blk))
            if isinstance(st, ast.Try):
                for h in st.handlers:
                    h.body = block(h.body)
            if isinstance(st, ast.For):
                ex = expand(st)
                if ex is not None:
                    res += ex
                    continue
            res.append(st)
        return res
    fn.body = block(fn.body)
    if done[0]:
        _renumber(fn)
    return done[0]


# ---------------------------------------------------------------------------------------------------------------------
# loop normal form: the same iteration written with itertools plumbing or comprehensions reads like plain nested loops
_ITER_BUILDERS = {"zip", "chain", "itertools.chain", "sorted", "enumerate", "repeat", "itertools.repeat", "reversed", "list", "tuple",
                  "getattr", "iter", "filter", "map"}


def _no_loop_exit(body: List[ast.stmt]) -> bool:
    return not _contains(body, (ast.Break, ast.FunctionDef, ast.Lambda, ast.Return)) or not _contains(body, (ast.Break,))


def normalise_loops(fn: ast.FunctionDef) -> int:
    """(1) a local bound once to an iterable expression (zip/chain/sorted/... or a generator) and used once, as (part of) a loop's
    iterable, is written back into that loop; (2) `for x in chain(A, B)` becomes `for x in A` followed by `for x in B`;
    (3) `for x, f in zip(X, repeat(F))` becomes `for x in X` with F for f; (4) `r.extend(e for x in X if c)` / `s.update(...)`
    become explicit loops with `r.append(e)` / `s.add(e)`.  All four keep the order of effects."""
    done = 0
    # ---- (1)
    for _ in range(4):
        cnt = _bindings(fn)
        uses: Dict[str, int] = {}
        for n in _own_nodes(fn):
            if isinstance(n, ast.Name) and isinstance(n.ctx, ast.Load):
                uses[n.id] = uses.get(n.id, 0) + 1
        defs = {}
        for n in _own_nodes(fn):
            if isinstance(n, ast.Assign) and len(n.targets) == 1 and isinstance(n.targets[0], ast.Name):
                nm = n.targets[0].id
                v = n.value
                if cnt.get(nm) == 1 and uses.get(nm) == 1 and (
                        isinstance(v, ast.GeneratorExp) or (isinstance(v, ast.Call) and ast.unparse(v.func) in _ITER_BUILDERS)):
                    defs[nm] = n
        if not defs:
            break
        changed = False

        def block1(stmts: List[ast.stmt]) -> List[ast.stmt]:
            nonlocal changed
            res = []
            for i, st in enumerate(stmts):
                for field in ("body", "orelse", "finalbody"):
                    blk = getattr(st, field, None)
                    if isinstance(blk, list) and blk and isinstance(blk[0], ast.stmt) and not isinstance(st, (ast.FunctionDef, ast.ClassDef)):
                        setattr(st, field, block1(blk))
                res.append(st)
            # forward a definition into a later loop of the same block when nothing in between can change what it reads
            out = []
            pending = {}
            for st in res:
                if isinstance(st, ast.Assign) and len(st.targets) == 1 and isinstance(st.targets[0], ast.Name) and \
                        st.targets[0].id in defs and defs[st.targets[0].id] is st:
                    pending[st.targets[0].id] = st
                    out.append(st)
                    continue
                if isinstance(st, ast.For):
                    names = [x for x in ast.walk(st.iter) if isinstance(x, ast.Name) and x.id in pending]
                    if names:
                        sub = {x.id: pending[x.id].value for x in names}
                        st.iter = _Rename({}, sub).visit(st.iter)
                        ast.fix_missing_locations(st)
                        for nm in sub:
                            out.remove(pending.pop(nm))
                        changed = True
                elif not isinstance(st, (ast.Assign, ast.Expr, ast.AnnAssign)) or _contains([st], (ast.Call,)) and not (
                        isinstance(st, ast.Assign) and len(st.targets) == 1 and isinstance(st.targets[0], ast.Name) and st.targets[0].id in defs):
                    pending = {k: v for k, v in pending.items() if False}       # a statement with effects: stop forwarding
                out.append(st)
            return out
        fn.body = block1(fn.body)
        if not changed:
            break
        done += 1

    # ---- (2) (3) (4)
    def split(loop: ast.For) -> Optional[List[ast.stmt]]:
        it = loop.iter
        if loop.orelse or not isinstance(it, ast.Call) or it.keywords:
            return None
        fname = ast.unparse(it.func)
        if fname in ("chain", "itertools.chain") and len(it.args) >= 2 and not any(isinstance(a, ast.Starred) for a in it.args) \
                and not _contains(loop.body, (ast.Break,)):
            out = []
            for a in it.args:
                l2 = copy.deepcopy(loop)
                l2.iter = copy.deepcopy(a)
                out.append(l2)
            return out
        if fname == "zip" and isinstance(loop.target, ast.Tuple) and len(loop.target.elts) == len(it.args) >= 2:
            rep_ = [isinstance(a, ast.Call) and ast.unparse(a.func) in ("repeat", "itertools.repeat") and len(a.args) == 1 for a in it.args]
            if sum(1 for r in rep_ if not r) == 1 and all(isinstance(t, ast.Name) for t, r in zip(loop.target.elts, rep_) if r):
                stored = {n.id for st in loop.body for n in ast.walk(st) if isinstance(n, ast.Name) and isinstance(n.ctx, ast.Store)}
                sub = {t.id: a.args[0] for t, a, r in zip(loop.target.elts, it.args, rep_) if r}
                if not (stored & set(sub)) and all(isinstance(v, (ast.Name, ast.Attribute, ast.Constant, ast.IfExp)) for v in sub.values()):
                    k = rep_.index(False)
                    l2 = copy.deepcopy(loop)
                    l2.target = copy.deepcopy(loop.target.elts[k])
                    l2.iter = copy.deepcopy(it.args[k])
                    l2.body = [_Rename({}, sub).visit(copy.deepcopy(st)) for st in loop.body]
                    return [l2]
        return None

    def lower_comp(st: ast.stmt) -> Optional[List[ast.stmt]]:
        if not (isinstance(st, ast.Expr) and isinstance(st.value, ast.Call) and isinstance(st.value.func, ast.Attribute)
                and st.value.func.attr in ("extend", "update") and len(st.value.args) == 1 and not st.value.keywords):
            return None
        comp = st.value.args[0]
        if not isinstance(comp, (ast.GeneratorExp, ast.ListComp, ast.SetComp)):
            return None
        if any(g.is_async for g in comp.generators):
            return None
        single = "append" if st.value.func.attr == "extend" else "add"
        inner: List[ast.stmt] = [ast.Expr(value=ast.Call(func=ast.Attribute(value=copy.deepcopy(st.value.func.value), attr=single, ctx=ast.Load()),
                                                          args=[copy.deepcopy(comp.elt)], keywords=[]))]
        for g in reversed(comp.generators):
            body = inner
            if g.ifs:
                test = g.ifs[0] if len(g.ifs) == 1 else ast.BoolOp(op=ast.And(), values=list(g.ifs))
                body = [ast.If(test=copy.deepcopy(test), body=body, orelse=[])]
            inner = [ast.For(target=copy.deepcopy(g.target), iter=copy.deepcopy(g.iter), body=body, orelse=[], type_comment=None)]
            for t in ast.walk(inner[0].target):
                if isinstance(t, ast.Name):
                    t.ctx = ast.Store()
        return inner

    def lower_reduce(st: ast.stmt) -> Optional[List[ast.stmt]]:
        """`x = reduce(lambda acc, p: BODY, ITER, INIT)` is `x = INIT` followed by `for p in ITER: x = BODY[acc := x]`"""
        if not (isinstance(st, ast.Assign) and len(st.targets) == 1 and isinstance(st.targets[0], ast.Name) and isinstance(st.value, ast.Call)
                and ast.unparse(st.value.func) in ("reduce", "functools.reduce") and len(st.value.args) == 3 and not st.value.keywords):
            return None
        lam, it, init = st.value.args
        if not (isinstance(lam, ast.Lambda) and len(lam.args.args) == 2 and not lam.args.defaults and not lam.args.vararg
                and not lam.args.kwarg and not lam.args.kwonlyargs):
            return None
        x = st.targets[0].id
        acc, p = lam.args.args[0].arg, lam.args.args[1].arg
        used = {n.id for n in _own_nodes(fn) if isinstance(n, ast.Name)} | {a.arg for a in fn.args.args + fn.args.kwonlyargs}
        if p in used or acc == p or any(isinstance(n, ast.Name) and n.id == x for n in ast.walk(lam.body)) or \
                any(isinstance(n, (ast.Lambda, ast.NamedExpr)) for n in ast.walk(lam.body)) or \
                any(isinstance(n, ast.Name) and n.id == x for n in ast.walk(it)):
            return None
        body = _Rename({}, {acc: ast.Name(id=x, ctx=ast.Load())}).visit(copy.deepcopy(lam.body))
        first = ast.Assign(targets=[ast.Name(id=x, ctx=ast.Store())], value=copy.deepcopy(init))
        step = ast.Assign(targets=[ast.Name(id=x, ctx=ast.Store())], value=body)
        loop = ast.For(target=ast.Name(id=p, ctx=ast.Store()), iter=copy.deepcopy(it), body=[step], orelse=[], type_comment=None)
        return [first, loop]

    def lower_search(stmts: List[ast.stmt]) -> List[ast.stmt]:
        """`x = next((E for v in IT if C), None)` + `if x is not None: BODY` (BODY leaves the function, x is not read anywhere else)
        is the search loop `for v in IT: if C: x = E; BODY` - also with the walrus form `if (x := next(...)) is not None:`"""
        nonlocal done
        out: List[ast.stmt] = []
        i = 0
        while i < len(stmts):
            st = stmts[i]
            call = tgt = test_if = None
            if isinstance(st, ast.Assign) and len(st.targets) == 1 and isinstance(st.targets[0], ast.Name) and i + 1 < len(stmts) \
                    and isinstance(stmts[i + 1], ast.If):
                call, tgt, test_if, skip = st.value, st.targets[0].id, stmts[i + 1], 2
                t = test_if.test
                if not (isinstance(t, ast.Compare) and len(t.ops) == 1 and isinstance(t.ops[0], ast.IsNot) and isinstance(t.left, ast.Name)
                        and t.left.id == tgt and isinstance(t.comparators[0], ast.Constant) and t.comparators[0].value is None):
                    call = None
            elif isinstance(st, ast.If):
                t = st.test
                if isinstance(t, ast.Compare) and len(t.ops) == 1 and isinstance(t.ops[0], ast.IsNot) and isinstance(t.left, ast.NamedExpr) \
                        and isinstance(t.comparators[0], ast.Constant) and t.comparators[0].value is None:
                    call, tgt, test_if, skip = t.left.value, t.left.target.id, st, 1
            ok = False
            if call is not None and isinstance(call, ast.Call) and isinstance(call.func, ast.Name) and call.func.id == "next" \
                    and len(call.args) == 2 and not call.keywords and isinstance(call.args[0], ast.GeneratorExp) \
                    and len(call.args[0].generators) == 1 and not call.args[0].generators[0].is_async \
                    and isinstance(call.args[1], ast.Constant) and call.args[1].value is None \
                    and not test_if.orelse and test_if.body and isinstance(test_if.body[-1], (ast.Raise, ast.Return)):
                gen = call.args[0].generators[0]
                loads = sum(1 for n in _own_nodes(fn) if isinstance(n, ast.Name) and n.id == tgt and isinstance(n.ctx, ast.Load))
                in_body = sum(1 for b in test_if.body for n in ast.walk(b) if isinstance(n, ast.Name) and n.id == tgt and isinstance(n.ctx, ast.Load))
                in_test = sum(1 for n in ast.walk(test_if.test) if isinstance(n, ast.Name) and n.id == tgt and isinstance(n.ctx, ast.Load))
                gvars = {n.id for n in ast.walk(gen.target) if isinstance(n, ast.Name)}
                others = {n.id for n in _own_nodes(fn) if isinstance(n, ast.Name)} - gvars
                inside_gen = {n.id for n in ast.walk(call.args[0]) if isinstance(n, ast.Name)}
                clash = any(sum(1 for n in _own_nodes(fn) if isinstance(n, ast.Name) and n.id == g) !=
                            sum(1 for n in ast.walk(call.args[0]) if isinstance(n, ast.Name) and n.id == g) for g in gvars)
                if loads == in_body + in_test and not clash and tgt not in inside_gen:
                    ok = True
                    inner: List[ast.stmt] = [ast.Assign(targets=[ast.Name(id=tgt, ctx=ast.Store())], value=copy.deepcopy(call.args[0].elt))] + \
                        list(test_if.body)
                    if gen.ifs:
                        cond = gen.ifs[0] if len(gen.ifs) == 1 else ast.BoolOp(op=ast.And(), values=list(gen.ifs))
                        inner = [ast.If(test=copy.deepcopy(cond), body=inner, orelse=[])]
                    loop = ast.For(target=copy.deepcopy(gen.target), iter=copy.deepcopy(gen.iter), body=inner, orelse=[], type_comment=None)
                    for t_ in ast.walk(loop.target):
                        if isinstance(t_, ast.Name):
                            t_.ctx = ast.Store()
                    ast.copy_location(loop, st)
                    ast.fix_missing_locations(loop)
                    out.append(loop)
                    done += 1
                    i += skip
            if not ok:
                out.append(st)
                i += 1
        return out

    def block2(stmts: List[ast.stmt]) -> List[ast.stmt]:
        nonlocal done
        res: List[ast.stmt] = []
        stmts = lower_search(stmts)
        for st in stmts:
            low = lower_comp(st) or lower_reduce(st)
            if low is not None:
                for x in low:
                    ast.copy_location(x, st)
                    ast.fix_missing_locations(x)
                done += 1
                res += block2(low)
                continue
            if isinstance(st, ast.For):
                sp = split(st)
                if sp is not None:
                    for x in sp:
                        ast.fix_missing_locations(x)
                    done += 1
                    res += block2(sp)
                    continue
            for field in ("body", "orelse", "finalbody"):
                blk = getattr(st, field, None)
                if isinstance(blk, list) and blk and isinstance(blk[0], ast.stmt) and not isinstance(st, (ast.FunctionDef, ast.ClassDef)):
                    setattr(st, field, block2(blk))
            if isinstance(st, ast.Try):
                for h in st.handlers:
                    h.body = block2(h.body)
            res.append(st)
        return res
    fn.body = block2(fn.body)
    if done:
        _renumber(fn)
    return done


# ---------------------------------------------------------------------------------------------------------------------
# fourth canonicalisation: named constants (module level, bound once, immutable literal) are replaced by their value
def _literal_const(v: ast.AST, known: Dict[str, ast.AST]) -> Optional[ast.AST]:
    """an immutable literal: str / int / bool / None, a tuple or frozenset of such, `A + 1` of known constants"""
    if isinstance(v, ast.Constant) and isinstance(v.value, (str, int, bool, type(None))) and not isinstance(v.value, bytes):
        return v
    if isinstance(v, ast.Tuple) and all(_literal_const(x, known) is not None for x in v.elts):
        return ast.Tuple(elts=[_literal_const(x, known) for x in v.elts], ctx=ast.Load())
    if isinstance(v, ast.Call) and isinstance(v.func, ast.Name) and v.func.id == "frozenset" and len(v.args) == 1 and \
            isinstance(v.args[0], (ast.Set, ast.Tuple, ast.List)) and all(_literal_const(x, known) is not None for x in v.args[0].elts):
        return ast.Tuple(elts=[_literal_const(x, known) for x in v.args[0].elts], ctx=ast.Load())
    if isinstance(v, ast.Name) and v.id in known:
        return known[v.id]
    if isinstance(v, ast.BinOp) and isinstance(v.op, (ast.Add, ast.Sub)):
        a, b = _literal_const(v.left, known), _literal_const(v.right, known)
        if isinstance(a, ast.Constant) and isinstance(b, ast.Constant) and type(a.value) is type(b.value) and \
                isinstance(a.value, (int, str)) and not isinstance(a.value, bool):
            try:
                return ast.Constant(value=a.value + b.value if isinstance(v.op, ast.Add) else a.value - b.value)
            except Exception:
                return None
    return None


def fold_named_constants(tree: ast.Module) -> int:
    binds: Dict[str, int] = {}
    for n in ast.walk(tree):
        if isinstance(n, ast.Name) and isinstance(n.ctx, (ast.Store, ast.Del)):
            binds[n.id] = binds.get(n.id, 0) + 1
        elif isinstance(n, (ast.FunctionDef, ast.ClassDef, ast.AsyncFunctionDef)):
            binds[n.name] = binds.get(n.name, 0) + 1
        elif isinstance(n, ast.arg):
            binds[n.arg] = binds.get(n.arg, 0) + 1
        elif isinstance(n, ast.alias):
            nm = (n.asname or n.name).split(".")[0]
            binds[nm] = binds.get(nm, 0) + 1
    known: Dict[str, ast.AST] = {}
    for st in tree.body:
        tgt, val = None, None
        if isinstance(st, ast.Assign) and len(st.targets) == 1 and isinstance(st.targets[0], ast.Name):
            tgt, val = st.targets[0].id, st.value
        elif isinstance(st, ast.AnnAssign) and isinstance(st.target, ast.Name) and st.value is not None:
            tgt, val = st.target.id, st.value
        if tgt and binds.get(tgt) == 1 and tgt.upper() == tgt:          # CONSTANT_CASE names only
            lit = _literal_const(val, known)
            if lit is not None:
                known[tgt] = lit
    if not known:
        return 0
    done = [0]

    class T(ast.NodeTransformer):
        def visit_Name(self, n):
            if isinstance(n.ctx, ast.Load) and n.id in known:
                done[0] += 1
                return ast.copy_location(copy.deepcopy(known[n.id]), n)
            return n
    for st in tree.body:
        if isinstance(st, (ast.FunctionDef, ast.AsyncFunctionDef, ast.ClassDef)):
            T().visit(st)
    return done[0]


def normalise(modules: Dict[str, ast.Module]) -> dict:
    il = Inliner(modules)
    st = il.run()
    st["_fully_inlined"] = getattr(il, "fully_inlined", set())
    n = u = lp = 0
    if not os.environ.get("SA_NO_INLINE"):
        st["constants_folded"] = sum(fold_named_constants(tree) for tree in modules.values())
        for tree in modules.values():
            consts = {t.id: st_.value for st_ in tree.body if isinstance(st_, ast.Assign) and len(st_.targets) == 1
                      for t in st_.targets if isinstance(t, ast.Name)}
            for _cls, fn in Inliner._hosts(tree):
                reduce_lambda_calls(fn)
                reduce_partial_calls(fn)
                u += unroll_constant_loops(fn, consts)
                lp += normalise_loops(fn)
                u += unroll_constant_loops(fn, consts)
                splice_literal_stars(fn)
                n += propagate_condition_locals(fn)
    st["conditions_propagated"] = n
    st["loops_unrolled"] = u
    st["loops_normalised"] = lp
    return st
