"""Structural query helpers over Python ASTs.

The rules use these instead of comparing unparsed source text, so that they keep deciding the same thing when
code is reformatted, locals are renamed, statements are split/merged or conditions are written the other way round.
Every helper answers a question about *roles* (which expression reaches this argument, which literals take part
in this path, under which conditions does this statement run), never about spelling.
"""
from __future__ import annotations

import ast
from typing import Dict, Iterator, List, Optional, Sequence, Set, Tuple

from .pymodel import call_name


# ----------------------------------------------------------------------------- generic
def parents_of(root: ast.AST) -> Dict[ast.AST, ast.AST]:
    out: Dict[ast.AST, ast.AST] = {}
    for n in ast.walk(root):
        for c in ast.iter_child_nodes(n):
            out[c] = n
    return out


def calls(root: ast.AST, *last_names: str) -> List[ast.Call]:
    """calls whose callee's last name component is one of last_names (`a.b.copytree(...)` -> 'copytree')"""
    return [c for c in ast.walk(root) if isinstance(c, ast.Call) and call_name(c).split(".")[-1] in last_names]


def target_names(t: ast.AST) -> List[str]:
    if isinstance(t, (ast.Tuple, ast.List)):
        return [x for e in t.elts for x in target_names(e)]
    try:
        return [ast.unparse(t)]
    except Exception:
        return []


def assignments(root: ast.AST, target: str) -> List[Tuple[ast.AST, Optional[ast.AST]]]:
    """(statement, value) of every assignment (plain, annotated, augmented, walrus) to `target` (unparsed form,
    e.g. 'x' or 'self.page_dir')"""
    out: List[Tuple[ast.AST, Optional[ast.AST]]] = []
    for n in ast.walk(root):
        if isinstance(n, ast.Assign):
            if any(target in target_names(t) for t in n.targets):
                out.append((n, n.value))
        elif isinstance(n, ast.AnnAssign):
            if target in target_names(n.target) and n.value is not None:
                out.append((n, n.value))
        elif isinstance(n, ast.AugAssign):
            if target in target_names(n.target):
                out.append((n, n.value))
        elif isinstance(n, ast.NamedExpr):
            if target in target_names(n.target):
                out.append((n, n.value))
    return out


def expand_locals(expr: ast.AST, fn: ast.AST, depth: int = 4, _seen: Optional[Set[str]] = None) -> List[ast.AST]:
    """the expression plus, transitively, the values assigned in `fn` to the local names it mentions
    (a flow-insensitive def-use closure: 'what can this expression be made of')"""
    seen = _seen if _seen is not None else set()
    out = [expr]
    if depth <= 0:
        return out
    for n in ast.walk(expr):
        if isinstance(n, ast.Name) and isinstance(n.ctx, ast.Load) and n.id not in seen:
            seen.add(n.id)
            for _, v in assignments(fn, n.id):
                if v is not None:
                    out += expand_locals(v, fn, depth - 1, seen)
    return out


def str_constants(exprs: Sequence[ast.AST]) -> List[str]:
    return [n.value for e in exprs for n in ast.walk(e) if isinstance(n, ast.Constant) and isinstance(n.value, str)]


def path_literals(expr: ast.AST, fn: Optional[ast.AST] = None) -> List[str]:
    """string literals that are operands of `/` (pathlib joins), of Path(...)/os.path.join(...) arguments, in the
    expression (and in the local definitions it is made of when fn is given)"""
    exprs = expand_locals(expr, fn) if fn is not None else [expr]
    out: List[str] = []
    for e in exprs:
        for n in ast.walk(e):
            if isinstance(n, ast.BinOp) and isinstance(n.op, ast.Div):
                for side in (n.left, n.right):
                    if isinstance(side, ast.Constant) and isinstance(side.value, str):
                        out.append(side.value)
            elif isinstance(n, ast.Call) and call_name(n).split(".")[-1] in ("Path", "PurePath", "join", "joinpath", "PurePosixPath"):
                for a in n.args:
                    if isinstance(a, ast.Constant) and isinstance(a.value, str):
                        out.append(a.value)
    return out


def mentions(expr: ast.AST, text: str, fn: Optional[ast.AST] = None) -> bool:
    """does the expression (or a local definition it is made of) contain a sub-expression spelled `text`
    (compared on unparsed sub-nodes, so formatting does not matter)"""
    exprs = expand_locals(expr, fn) if fn is not None else [expr]
    for e in exprs:
        for n in ast.walk(e):
            if isinstance(n, (ast.Name, ast.Attribute, ast.Subscript, ast.Call)):
                try:
                    if ast.unparse(n) == text:
                        return True
                except Exception:
                    pass
    return False


def returns(fn: ast.AST) -> List[ast.AST]:
    out = []
    for n in ast.walk(fn):
        if isinstance(n, ast.Return) and n.value is not None:
            out.append(n.value)
    return out


# ----------------------------------------------------------------------------- call arguments by parameter name
def bind_args(call: ast.Call, fdef: ast.AST, skip_self: bool = False) -> Dict[str, ast.AST]:
    """parameter name -> argument expression for a call of the function defined by fdef"""
    a = fdef.args
    params = [x.arg for x in a.posonlyargs + a.args]
    if skip_self and params and params[0] in ("self", "cls"):
        params = params[1:]
    out: Dict[str, ast.AST] = {}
    for i, arg in enumerate(call.args):
        if isinstance(arg, ast.Starred):
            break
        if i < len(params):
            out[params[i]] = arg
    for k in call.keywords:
        if k.arg is not None:
            out[k.arg] = k.value
    return out


# ----------------------------------------------------------------------------- conditions
def conditions_of(node: ast.AST, parents: Dict[ast.AST, ast.AST], stop: Optional[ast.AST] = None) -> List[Tuple[ast.AST, bool]]:
    """[(test, polarity)] of the enclosing if/while/conditional expressions under which `node` is evaluated
    (polarity False = the else branch)"""
    out: List[Tuple[ast.AST, bool]] = []
    n = node
    while n in parents and n is not stop:
        p = parents[n]
        if isinstance(p, ast.If) or isinstance(p, ast.While):
            if any(n is x for x in p.body):
                out.append((p.test, True))
            elif any(n is x for x in p.orelse):
                out.append((p.test, False))
        elif isinstance(p, ast.IfExp):
            if n is p.body:
                out.append((p.test, True))
            elif n is p.orelse:
                out.append((p.test, False))
        n = p
    return out


def preceding_guards(stmt_list: Sequence[ast.stmt], upto: ast.AST) -> List[ast.If]:
    """`if ...: continue/return/raise` statements that precede (in this statement list) the statement containing
    `upto` - i.e. the early exits every execution has passed when `upto` runs"""
    out: List[ast.If] = []
    for st in stmt_list:
        if any(x is upto for x in ast.walk(st)):
            break
        if isinstance(st, ast.If) and st.body and isinstance(st.body[-1], (ast.Continue, ast.Return, ast.Raise, ast.Break)) \
                and not st.orelse:
            out.append(st)
    return out


def tests_first_char(test: ast.AST, var: str, ch: str) -> bool:
    """`var[0] == ch` / `var.startswith(ch)` / `var[:1] == ch` somewhere in the test"""
    for n in ast.walk(test):
        if isinstance(n, ast.Compare) and len(n.ops) == 1 and isinstance(n.ops[0], ast.Eq):
            l, r = n.left, n.comparators[0]
            for a, b in ((l, r), (r, l)):
                if isinstance(b, ast.Constant) and b.value == ch and isinstance(a, ast.Subscript) and \
                        isinstance(a.value, ast.Name) and a.value.id == var and ast.unparse(a.slice) in ("0", ":1"):
                    return True
        if isinstance(n, ast.Call) and isinstance(n.func, ast.Attribute) and n.func.attr == "startswith" and \
                isinstance(n.func.value, ast.Name) and n.func.value.id == var and n.args and \
                isinstance(n.args[0], ast.Constant) and n.args[0].value == ch:
            return True
    return False


def tests_last_char(test: ast.AST, var: str, ch: str) -> bool:
    for n in ast.walk(test):
        if isinstance(n, ast.Compare) and len(n.ops) == 1 and isinstance(n.ops[0], ast.Eq):
            l, r = n.left, n.comparators[0]
            for a, b in ((l, r), (r, l)):
                if isinstance(b, ast.Constant) and b.value == ch and isinstance(a, ast.Subscript) and \
                        isinstance(a.value, ast.Name) and a.value.id == var and ast.unparse(a.slice) in ("-1", "-1:"):
                    return True
        if isinstance(n, ast.Call) and isinstance(n.func, ast.Attribute) and n.func.attr == "endswith" and \
                isinstance(n.func.value, ast.Name) and n.func.value.id == var and n.args and \
                isinstance(n.args[0], ast.Constant) and n.args[0].value == ch:
            return True
    return False


def compares_to_const(test: ast.AST, const, ops=(ast.Eq, ast.NotEq)) -> List[ast.Compare]:
    out = []
    for n in ast.walk(test):
        if isinstance(n, ast.Compare) and len(n.ops) == 1 and isinstance(n.ops[0], ops):
            for side in (n.left, n.comparators[0]):
                if isinstance(side, ast.Constant) and side.value == const:
                    out.append(n)
    return out


def handler_types(h: ast.ExceptHandler) -> List[str]:
    if h.type is None:
        return ["BaseException"]
    ts = h.type.elts if isinstance(h.type, ast.Tuple) else [h.type]
    return [ast.unparse(x).split(".")[-1] for x in ts]


def enclosing(node: ast.AST, parents: Dict[ast.AST, ast.AST], kinds) -> Optional[ast.AST]:
    n = node
    while n in parents:
        n = parents[n]
        if isinstance(n, kinds):
            return n
    return None
