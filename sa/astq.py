"""Structural query helpers over Python ASTs.

The rules use these instead of comparing unparsed source text, so that they keep deciding the same thing when
code is reformatted, locals are renamed, statements are split/merged or conditions are written the other way round.
Every helper answers a question about *roles* (which expression reaches this argument, which literals take part
in this path, under which conditions does this statement run), never about spelling.
"""
from __future__ import annotations

import ast
import re
from typing import Dict, Iterator, List, Optional, Sequence, Set, Tuple

from .pymodel import call_name


# ----------------------------------------------------------------------------- generic
def parents_of(root: ast.AST) -> Dict[ast.AST, ast.AST]:
    out: Dict[ast.AST, ast.AST] = {}
    for n in ast.walk(root):
        for c in ast.iter_child_nodes(n):
            out[c] = n
    return out


def calls(root: ast.AST, *last_names: str) -> List[ast.Call]:
    """calls whose callee's last name component is one of last_names (`a.b.copytree(...)` -> 'copytree')"""
    return [c for c in ast.walk(root) if isinstance(c, ast.Call) and call_name(c).split(".")[-1] in last_names]


def target_names(t: ast.AST) -> List[str]:
    if isinstance(t, (ast.Tuple, ast.List)):
        return [x for e in t.elts for x in target_names(e)]
    try:
        return [ast.unparse(t)]
    except Exception:
        return []


def assignments(root: ast.AST, target: str) -> List[Tuple[ast.AST, Optional[ast.AST]]]:
    """(statement, value) of every assignment (plain, annotated, augmented, walrus) to `target` (unparsed form,
    e.g. 'x' or 'self.page_dir')"""
    out: List[Tuple[ast.AST, Optional[ast.AST]]] = []
    for n in ast.walk(root):
        if isinstance(n, ast.Assign):
            if any(target in target_names(t) for t in n.targets):
                out.append((n, n.value))
        elif isinstance(n, ast.AnnAssign):
            if target in target_names(n.target) and n.value is not None:
                out.append((n, n.value))
        elif isinstance(n, ast.AugAssign):
            if target in target_names(n.target):
                out.append((n, n.value))
        elif isinstance(n, ast.NamedExpr):
            if target in target_names(n.target):
                out.append((n, n.value))
    return out


def expand_locals(expr: ast.AST, fn: ast.AST, depth: int = 4, _seen: Optional[Set[str]] = None,
                  stop: Sequence[str] = ()) -> List[ast.AST]:
    """the expression plus, transitively, the values assigned in `fn` to the local names it mentions
    (a flow-insensitive def-use closure: 'what can this expression be made of')"""
    seen = _seen if _seen is not None else set(stop)
    out = [expr]
    if depth <= 0:
        return out
    for n in ast.walk(expr):
        if isinstance(n, ast.Name) and isinstance(n.ctx, ast.Load) and n.id not in seen:
            seen.add(n.id)
            for _, v in assignments(fn, n.id):
                if v is not None:
                    out += expand_locals(v, fn, depth - 1, seen)
            # a loop / comprehension variable is made of the elements of what it iterates
            for it in _iterables_of(fn, n.id):
                out += expand_locals(it, fn, depth - 1, seen)
    return out


def _iterables_of(fn: ast.AST, name: str) -> List[ast.AST]:
    cache = getattr(fn, "_iter_cache", None)
    if cache is None:
        cache = {}
        for x in ast.walk(fn):
            if isinstance(x, (ast.For, ast.comprehension)):
                it = x.iter
                if isinstance(it, ast.Call) and isinstance(it.func, ast.Name) and it.func.id in ("enumerate", "reversed", "sorted", "list", "tuple") and it.args:
                    it = it.args[0]
                for t in ast.walk(x.target):
                    if isinstance(t, ast.Name):
                        cache.setdefault(t.id, []).append(it)
        try:
            fn._iter_cache = cache
        except AttributeError:
            pass
    return cache.get(name, [])


def value_sources(py, fn: ast.AST, expr: ast.AST, depth: int = 4, _seen: Optional[Set[str]] = None) -> List[ast.AST]:
    """The expressions a value can come from, with locals and *unused optional parameters* resolved: a local name is replaced
    by what is assigned to it; a parameter that no call site of `fn` supplies is replaced by its default (dropped when the
    default is None and the function re-binds the name - `if p is None: p = <default expression>`); a parameter that some
    call site supplies stays as the bare name (its value is not known here)."""
    seen = _seen if _seen is not None else set()
    if not isinstance(expr, ast.Name) or depth <= 0 or expr.id in seen:
        return [expr]
    seen.add(expr.id)
    vals = [v for _t, v in assignments(fn, expr.id) if v is not None]
    vals += [n.value for n in ast.walk(fn) if isinstance(n, ast.NamedExpr) and n.target.id == expr.id]
    out: List[ast.AST] = []
    a = getattr(fn, "args", None)
    params = [x.arg for x in (a.posonlyargs + a.args + a.kwonlyargs)] if a is not None else []
    if expr.id in params:
        pos = a.posonlyargs + a.args
        dflt = dict(zip([x.arg for x in pos[len(pos) - len(a.defaults):]], a.defaults))
        dflt.update({x.arg: d for x, d in zip(a.kwonlyargs, a.kw_defaults) if d is not None})
        is_method = bool(pos) and pos[0].arg in ("self", "cls")
        qn = py.qualname(fn)
        callee = qn.split(".")[-2] if qn.endswith(".__init__") and "." in qn else fn.name
        supplied = False
        for _m, f2 in py.all_functions():
            for c in ast.walk(f2):
                if isinstance(c, ast.Call) and call_name(c).split(".")[-1] == callee:
                    if any(isinstance(x, ast.Starred) for x in c.args) or any(k.arg is None for k in c.keywords):
                        # **kwargs forwarding: supplied only if the caller itself can receive the name - not decidable here
                        if any(k.arg == expr.id for k in c.keywords):
                            supplied = True
                        continue
                    if bind_args(c, fn, skip_self=is_method).get(expr.id) is not None:
                        supplied = True
        d = dflt.get(expr.id)
        if supplied or d is None:
            out.append(expr)
        elif not (isinstance(d, ast.Constant) and d.value is None and vals):
            out.append(d)
    elif not vals:
        return [expr]
    for v in vals:
        out += value_sources(py, fn, v, depth - 1, seen)
    return out


def linear(e: ast.AST) -> Optional[Dict[str, int]]:
    """an integer expression as a linear form {term text: coefficient, "": constant}; None if it is not linear"""
    if isinstance(e, ast.Constant) and isinstance(e.value, int) and not isinstance(e.value, bool):
        return {"": e.value}
    if isinstance(e, ast.UnaryOp) and isinstance(e.op, ast.USub):
        a = linear(e.operand)
        return None if a is None else {k: -v for k, v in a.items()}
    if isinstance(e, ast.BinOp) and isinstance(e.op, (ast.Add, ast.Sub)):
        a, b = linear(e.left), linear(e.right)
        if a is None or b is None:
            return None
        out = dict(a)
        for k, v in b.items():
            out[k] = out.get(k, 0) + (v if isinstance(e.op, ast.Add) else -v)
        return {k: v for k, v in out.items() if v or k == ""}
    if isinstance(e, ast.BinOp) and isinstance(e.op, ast.Mult):
        a, b = linear(e.left), linear(e.right)
        if a is None or b is None:
            return None
        for x, y in ((a, b), (b, a)):
            if set(x) <= {""}:
                c = x.get("", 0)
                return {k: v * c for k, v in y.items() if v * c or k == ""}
        return None
    return {ast.unparse(e): 1}


def str_length(e: ast.AST, subject: str) -> Optional[Dict[str, int]]:
    """the length of a string expression built from constants, `s * n`, `a + b` and slices `subject[a:b]` of the string named
    `subject` (slice bounds are taken to lie within the string, a <= b), as a linear form in which len(subject) is the term
    "len(subject)"; None when the expression has another shape"""
    L = f"len({subject})"

    def norm(d):
        return {k: v for k, v in d.items() if v or k == ""} if d is not None else None
    if isinstance(e, ast.Constant) and isinstance(e.value, str):
        return {"": len(e.value)}
    if isinstance(e, ast.Name) and e.id == subject:
        return {L: 1}
    if isinstance(e, ast.BinOp) and isinstance(e.op, ast.Add):
        a, b = str_length(e.left, subject), str_length(e.right, subject)
        if a is None or b is None:
            return None
        out = dict(a)
        for k, v in b.items():
            out[k] = out.get(k, 0) + v
        return norm(out)
    if isinstance(e, ast.BinOp) and isinstance(e.op, ast.Mult):
        for s_, n_ in ((e.left, e.right), (e.right, e.left)):
            ls = str_length(s_, subject) if isinstance(s_, ast.Constant) and isinstance(s_.value, str) else None
            if ls is not None:
                n = linear(n_)
                if n is None:
                    return None
                c = ls.get("", 0)
                return norm({k: v * c for k, v in n.items()})
        return None
    if isinstance(e, ast.Subscript) and isinstance(e.value, ast.Name) and e.value.id == subject and isinstance(e.slice, ast.Slice) \
            and e.slice.step is None:
        lo = linear(e.slice.lower) if e.slice.lower is not None else {"": 0}
        hi = linear(e.slice.upper) if e.slice.upper is not None else {L: 1}
        if lo is None or hi is None:
            return None
        out = dict(hi)
        for k, v in lo.items():
            out[k] = out.get(k, 0) - v
        return norm(out)
    if isinstance(e, ast.Call) and isinstance(e.func, ast.Attribute) and e.func.attr in ("ljust", "rjust") and len(e.args) >= 1:
        return None
    return None


def str_constants(exprs: Sequence[ast.AST]) -> List[str]:
    return [n.value for e in exprs for n in ast.walk(e) if isinstance(n, ast.Constant) and isinstance(n.value, str)]


def path_literals(expr: ast.AST, fn: Optional[ast.AST] = None) -> List[str]:
    """string literals that are operands of `/` (pathlib joins), of Path(...)/os.path.join(...) arguments, in the
    expression (and in the local definitions it is made of when fn is given)"""
    exprs = expand_locals(expr, fn) if fn is not None else [expr]
    out: List[str] = []
    for e in exprs:
        for n in ast.walk(e):
            if isinstance(n, ast.BinOp) and isinstance(n.op, ast.Div):
                for side in (n.left, n.right):
                    if isinstance(side, ast.Constant) and isinstance(side.value, str):
                        out.append(side.value)
            elif isinstance(n, ast.Call) and call_name(n).split(".")[-1] in ("Path", "PurePath", "join", "joinpath", "PurePosixPath"):
                for a in n.args:
                    if isinstance(a, ast.Constant) and isinstance(a.value, str):
                        out.append(a.value)
    return out


def mentions(expr: ast.AST, text: str, fn: Optional[ast.AST] = None) -> bool:
    """does the expression (or a local definition it is made of) contain a sub-expression spelled `text`
    (compared on unparsed sub-nodes, so formatting does not matter)"""
    exprs = expand_locals(expr, fn) if fn is not None else [expr]
    for e in exprs:
        for n in ast.walk(e):
            if isinstance(n, (ast.Name, ast.Attribute, ast.Subscript, ast.Call)):
                try:
                    if ast.unparse(n) == text:
                        return True
                except Exception:
                    pass
    return False


def returns(fn: ast.AST) -> List[ast.AST]:
    out = []
    for n in ast.walk(fn):
        if isinstance(n, ast.Return) and n.value is not None:
            out.append(n.value)
    return out


# ----------------------------------------------------------------------------- call arguments by parameter name
def bind_args(call: ast.Call, fdef: ast.AST, skip_self: bool = False) -> Dict[str, ast.AST]:
    """parameter name -> argument expression for a call of the function defined by fdef"""
    a = fdef.args
    params = [x.arg for x in a.posonlyargs + a.args]
    if skip_self and params and params[0] in ("self", "cls"):
        params = params[1:]
    out: Dict[str, ast.AST] = {}
    for i, arg in enumerate(call.args):
        if isinstance(arg, ast.Starred):
            break
        if i < len(params):
            out[params[i]] = arg
    for k in call.keywords:
        if k.arg is not None:
            out[k.arg] = k.value
    return out


# ----------------------------------------------------------------------------- conditions
def conditions_of(node: ast.AST, parents: Dict[ast.AST, ast.AST], stop: Optional[ast.AST] = None) -> List[Tuple[ast.AST, bool]]:
    """[(test, polarity)] of the enclosing if/while/conditional expressions under which `node` is evaluated
    (polarity False = the else branch)"""
    out: List[Tuple[ast.AST, bool]] = []
    n = node
    while n in parents and n is not stop:
        p = parents[n]
        if isinstance(p, ast.If) or isinstance(p, ast.While):
            if any(n is x for x in p.body):
                out.append((p.test, True))
            elif any(n is x for x in p.orelse):
                out.append((p.test, False))
        elif isinstance(p, ast.IfExp):
            if n is p.body:
                out.append((p.test, True))
            elif n is p.orelse:
                out.append((p.test, False))
        n = p
    return out


def preceding_guards(stmt_list: Sequence[ast.stmt], upto: ast.AST) -> List[ast.If]:
    """`if ...: continue/return/raise` statements that precede (in this statement list) the statement containing
    `upto` - i.e. the early exits every execution has passed when `upto` runs"""
    out: List[ast.If] = []
    for st in stmt_list:
        if any(x is upto for x in ast.walk(st)):
            break
        if isinstance(st, ast.If) and st.body and isinstance(st.body[-1], (ast.Continue, ast.Return, ast.Raise, ast.Break)) \
                and not st.orelse:
            out.append(st)
    return out


def tests_first_char(test: ast.AST, var: str, ch: str) -> bool:
    """`var[0] == ch` / `var.startswith(ch)` / `var[:1] == ch` somewhere in the test"""
    for n in ast.walk(test):
        if isinstance(n, ast.Compare) and len(n.ops) == 1 and isinstance(n.ops[0], ast.Eq):
            l, r = n.left, n.comparators[0]
            for a, b in ((l, r), (r, l)):
                if isinstance(b, ast.Constant) and b.value == ch and isinstance(a, ast.Subscript) and \
                        isinstance(a.value, ast.Name) and a.value.id == var and ast.unparse(a.slice) in ("0", ":1"):
                    return True
        if isinstance(n, ast.Call) and isinstance(n.func, ast.Attribute) and n.func.attr == "startswith" and \
                isinstance(n.func.value, ast.Name) and n.func.value.id == var and n.args and _const_has(n.args[0], ch):
            return True
    return False


def _const_has(e: ast.AST, ch: str) -> bool:
    """the constant `ch`, or a tuple of constants that contains it (str.startswith / endswith accept both)"""
    if isinstance(e, ast.Constant):
        return e.value == ch
    if isinstance(e, ast.Tuple):
        return any(isinstance(x, ast.Constant) and x.value == ch for x in e.elts)
    return False


def tests_last_char(test: ast.AST, var: str, ch: str) -> bool:
    for n in ast.walk(test):
        if isinstance(n, ast.Compare) and len(n.ops) == 1 and isinstance(n.ops[0], ast.Eq):
            l, r = n.left, n.comparators[0]
            for a, b in ((l, r), (r, l)):
                if isinstance(b, ast.Constant) and b.value == ch and isinstance(a, ast.Subscript) and \
                        isinstance(a.value, ast.Name) and a.value.id == var and ast.unparse(a.slice) in ("-1", "-1:"):
                    return True
        if isinstance(n, ast.Call) and isinstance(n.func, ast.Attribute) and n.func.attr == "endswith" and \
                isinstance(n.func.value, ast.Name) and n.func.value.id == var and n.args and _const_has(n.args[0], ch):
            return True
    return False


def compares_to_const(test: ast.AST, const, ops=(ast.Eq, ast.NotEq)) -> List[ast.Compare]:
    out = []
    for n in ast.walk(test):
        if isinstance(n, ast.Compare) and len(n.ops) == 1 and isinstance(n.ops[0], ops):
            for side in (n.left, n.comparators[0]):
                if isinstance(side, ast.Constant) and side.value == const:
                    out.append(n)
    return out


def handler_types(h: ast.ExceptHandler) -> List[str]:
    if h.type is None:
        return ["BaseException"]
    ts = h.type.elts if isinstance(h.type, ast.Tuple) else [h.type]
    return [ast.unparse(x).split(".")[-1] for x in ts]


def enclosing(node: ast.AST, parents: Dict[ast.AST, ast.AST], kinds) -> Optional[ast.AST]:
    n = node
    while n in parents:
        n = parents[n]
        if isinstance(n, kinds):
            return n
    return None


# ----------------------------------------------------------------------------- inlined, condition-annotated event traces
class Event:
    """One call / assignment / return / raise of a function, in source order, with everything needed to reason about
    it independently of how the code is laid out: the conditions under which it runs (including those implied by
    earlier `if c: return/continue/raise` exits), the try/with blocks protecting it, and - when it comes from a helper
    that was inlined at its call site - the parameter bindings."""
    __slots__ = ("kind", "node", "conds", "protected", "subst", "fn", "depth", "target", "value", "loops")

    def __init__(self, kind, node, conds, protected, subst, fn, depth, target=None, value=None, loops=()):
        self.kind, self.node, self.conds, self.protected = kind, node, list(conds), list(protected)
        self.subst, self.fn, self.depth, self.target, self.value, self.loops = dict(subst), fn, depth, target, value, tuple(loops)

    def text(self, node: Optional[ast.AST] = None) -> str:
        """source text of node (default: the event's node) with inlined parameters replaced by their arguments"""
        n = self.node if node is None else node
        return unparse_subst(n, self.subst)

    def cond_texts(self) -> List[str]:
        out = []
        for test, pol, subst in self.conds:
            t = unparse_subst(test, subst)
            out.append(t if pol else f"not ({t})")
        return out

    def cond_texts_x(self, fn: Optional[ast.AST] = None) -> List[str]:
        """cond_texts() with local names replaced by what they were assigned from (alternatives joined by ' | '): a
        condition hoisted into a local (`undocumented = not item.doc_list`) reads the same as the inline one"""
        out = []
        for test, pol, subst in self.conds:
            alts = []
            for x in expand_locals(test, fn or self.fn):
                t = unparse_subst(x, subst)
                if t not in alts:
                    alts.append(t)
            t = " | ".join(alts)
            out.append(t if pol else f"not ({t})")
        return out

    def __repr__(self):
        return f"<{self.kind} {self.text()[:60]} if {self.cond_texts()}>"


class _Subst(ast.NodeTransformer):
    def __init__(self, m):
        self.m = m

    def visit_Name(self, n):
        if n.id in self.m and isinstance(n.ctx, ast.Load):
            return self.m[n.id]
        return n


def unparse_subst(node: ast.AST, subst: Dict[str, ast.AST]) -> str:
    if not subst:
        return ast.unparse(node)
    import copy
    return ast.unparse(_Subst(subst).visit(copy.deepcopy(node)))


def _else_cond(loop: ast.AST, subst) -> list:
    """the else-branch of a loop runs only when the loop was not left by `break`: a pseudo-condition records that"""
    def own_break(stmts) -> bool:
        for st in stmts:
            if isinstance(st, ast.Break):
                return True
            if isinstance(st, (ast.For, ast.AsyncFor, ast.While, ast.FunctionDef, ast.AsyncFunctionDef, ast.ClassDef)):
                if isinstance(st, (ast.For, ast.AsyncFor, ast.While)) and own_break(st.orelse):
                    return True
                continue
            for f in ("body", "orelse", "finalbody", "handlers"):
                sub = getattr(st, f, None)
                if isinstance(sub, list) and own_break([x for x in sub if isinstance(x, ast.stmt)] +
                                                       [y for x in sub if isinstance(x, ast.ExceptHandler) for y in x.body]):
                    return True
        return False
    if not loop.orelse or not own_break(loop.body):
        return []
    return [(ast.Name(id="loop_not_left_by_break", ctx=ast.Load()), True, subst)]


def _swallowing_handlers(t: ast.Try) -> List[str]:
    out = []
    for h in t.handlers:
        if not any(isinstance(x, ast.Raise) for x in ast.walk(h)):
            out += handler_types(h)
    return out


def trace(fn: ast.AST, resolve=None, max_depth: int = 2) -> List[Event]:
    """Linearise `fn` into events.  `resolve(call) -> FunctionDef | None` says which calls to inline (local closures
    are always inlined)."""
    events: List[Event] = []

    def locals_of(f):
        return {n.name: n for st in f.body for n in ast.walk(st) if isinstance(n, (ast.FunctionDef, ast.AsyncFunctionDef))}

    counter = [0]

    def run(f, conds, protected, subst, depth, stack, ret_target, loops):
        closures = locals_of(f)
        counter[0] += 1
        inst = counter[0]      # one dynamic instance per inlining: the same `with` block inlined twice is two blocks

        def callee_of(c: ast.Call):
            if isinstance(c.func, ast.Name) and c.func.id in closures:
                return closures[c.func.id], False
            if resolve is not None:
                r = resolve(c)
                if r is not None:
                    return r, isinstance(c.func, ast.Attribute)
            return None, False

        def expr_events(e: ast.AST, conds, protected, target=None, loops=()):
            # calls inside the expression, innermost first, in source order; a call inside a conditional expression or behind a
            # short-circuit operator runs under that condition (`f(x) if c else y`, `c and f(x)`)
            inner: Dict[int, list] = {}

            def mark(n: ast.AST, extra: list):
                if isinstance(n, ast.Call):
                    inner[id(n)] = extra
                if isinstance(n, ast.IfExp):
                    mark(n.test, extra)
                    mark(n.body, extra + [(n.test, True, subst)])
                    mark(n.orelse, extra + [(n.test, False, subst)])
                    return
                if isinstance(n, ast.BoolOp) and len(n.values) >= 2:
                    acc = list(extra)
                    for i, v in enumerate(n.values):
                        mark(v, acc)
                        acc = acc + [(v, isinstance(n.op, ast.And), subst)]
                    return
                if isinstance(n, (ast.Lambda, ast.ListComp, ast.SetComp, ast.DictComp, ast.GeneratorExp)):
                    for ch in ast.walk(n):
                        if isinstance(ch, ast.Call):
                            inner.setdefault(id(ch), extra)
                    return
                for ch in ast.iter_child_nodes(n):
                    mark(ch, extra)
            mark(e, [])
            outer_conds = conds
            for c in sorted([x for x in ast.walk(e) if isinstance(x, ast.Call)], key=lambda x: (x.lineno, x.col_offset)):
                conds = list(outer_conds) + inner.get(id(c), [])
                d, is_method = callee_of(c)
                if d is not None and depth < max_depth and d not in stack:
                    params = [a.arg for a in d.args.posonlyargs + d.args.args]
                    if is_method and params and params[0] in ("self", "cls"):
                        params = params[1:]
                    s2 = {}
                    for i, a in enumerate(c.args):
                        if i < len(params) and not isinstance(a, ast.Starred):
                            s2[params[i]] = _Subst(subst).visit(__import__("copy").deepcopy(a)) if subst else a
                    for k in c.keywords:
                        if k.arg:
                            s2[k.arg] = _Subst(subst).visit(__import__("copy").deepcopy(k.value)) if subst else k.value
                    events.append(Event("inline", c, conds, protected, subst, f, depth))
                    run(d, conds, protected, s2, depth + 1, stack + [d], target if c is e else None, loops)
                else:
                    events.append(Event("call", c, conds, protected, subst, f, depth, loops=loops))
            conds = outer_conds
            for w in ast.walk(e):
                if isinstance(w, ast.NamedExpr):
                    events.append(Event("assign", w, conds, protected, subst, f, depth, target=ast.unparse(w.target), value=w.value, loops=loops))

        def block(stmts, conds, protected, loops):
            conds = list(conds)
            for st in stmts:
                if isinstance(st, (ast.FunctionDef, ast.AsyncFunctionDef, ast.ClassDef)):
                    continue
                if isinstance(st, ast.If):
                    expr_events(st.test, conds, protected, loops=loops)
                    block(st.body, conds + [(st.test, True, subst)], protected, loops)
                    block(st.orelse, conds + [(st.test, False, subst)], protected, loops)
                    exits_body = bool(st.body) and isinstance(st.body[-1], (ast.Return, ast.Continue, ast.Raise, ast.Break))
                    exits_else = bool(st.orelse) and isinstance(st.orelse[-1], (ast.Return, ast.Continue, ast.Raise, ast.Break))
                    if exits_body and not exits_else:
                        conds = conds + [(st.test, False, subst)]
                    elif exits_else and not exits_body:
                        conds = conds + [(st.test, True, subst)]
                elif isinstance(st, (ast.For, ast.AsyncFor)):
                    expr_events(st.iter, conds, protected, loops=loops)
                    events.append(Event("loop", st, conds, protected, subst, f, depth, target=ast.unparse(st.target), value=st.iter, loops=loops))
                    block(st.body, conds, protected, loops + (st,))
                    block(st.orelse, conds + _else_cond(st, subst), protected, loops)
                elif isinstance(st, ast.While):
                    expr_events(st.test, conds, protected, loops=loops)
                    block(st.body, conds + [(st.test, True, subst)], protected, loops + (st,))
                    block(st.orelse, conds + _else_cond(st, subst), protected, loops)
                elif isinstance(st, (ast.With, ast.AsyncWith)):
                    prot = list(protected)
                    for it in st.items:
                        ce = it.context_expr
                        if isinstance(ce, ast.Call) and call_name(ce).split(".")[-1] == "suppress":
                            prot = prot + [("suppress", [ast.unparse(a).split(".")[-1] for a in ce.args], st, inst)]
                        else:
                            expr_events(ce, conds, protected, loops=loops)
                    block(st.body, conds, prot, loops)
                elif isinstance(st, ast.Try):
                    sw = _swallowing_handlers(st)
                    allh = [t for h in st.handlers for t in handler_types(h)]
                    block(st.body, conds, protected + [("try", allh, st, inst)], loops)
                    for h in st.handlers:
                        events.append(Event("handler", h, conds, protected, subst, f, depth, loops=loops))
                        block(h.body, conds, protected, loops)
                    block(st.orelse, conds, protected, loops)
                    block(st.finalbody, conds, protected, loops)
                elif isinstance(st, ast.Return):
                    if st.value is not None:
                        expr_events(st.value, conds, protected, target=ret_target, loops=loops)
                    if depth > 0 and ret_target is not None and st.value is not None:
                        events.append(Event("assign", st, conds, protected, subst, f, depth, target=ret_target, value=st.value, loops=loops))
                    else:
                        events.append(Event("return", st, conds, protected, subst, f, depth, value=st.value, loops=loops))
                elif isinstance(st, ast.Raise):
                    events.append(Event("raise", st, conds, protected, subst, f, depth, value=st.exc, loops=loops))
                elif isinstance(st, (ast.Assign, ast.AnnAssign, ast.AugAssign)):
                    val = st.value
                    tgts = st.targets if isinstance(st, ast.Assign) else [st.target]
                    tname = ast.unparse(tgts[0]) if tgts else None
                    if val is not None:
                        expr_events(val, conds, protected, target=tname, loops=loops)
                        for tg in tgts:      # a = b = v assigns both
                            events.append(Event("assign", st, conds, protected, subst, f, depth, target=ast.unparse(tg), value=val, loops=loops))
                elif isinstance(st, ast.Expr):
                    if isinstance(st.value, ast.Constant) and isinstance(st.value.value, str) and st.value.value.startswith("<inlined> "):
                        # marker left by sa/inline.py in front of an expanded helper: reported like a call of the helper
                        nm = st.value.value[len("<inlined> "):]
                        fake = ast.copy_location(ast.Call(func=ast.Name(id=nm, ctx=ast.Load()), args=[], keywords=[]), st)
                        events.append(Event("call", fake, conds, protected, subst, f, depth, loops=loops))
                    else:
                        expr_events(st.value, conds, protected, loops=loops)
                elif isinstance(st, (ast.Continue, ast.Break)):
                    events.append(Event("jump", st, conds, protected, subst, f, depth, loops=loops))
                else:
                    for e in ast.iter_child_nodes(st):
                        if isinstance(e, ast.expr):
                            expr_events(e, conds, protected, loops=loops)

        block(f.body, conds, protected, loops)

    run(fn, [], [], {}, 0, [fn], None, ())
    return events


def class_method_resolver(py, cls: Optional[str], module: Optional[str] = None):
    """resolve `self.m(...)` / `cls.m(...)` / `Class.m(...)` to methods of the class (MRO) and bare `f(...)` to
    functions of the module"""
    def resolve(c: ast.Call):
        f = c.func
        if isinstance(f, ast.Attribute) and isinstance(f.value, ast.Name) and cls is not None:
            if f.value.id in ("self", "cls") or f.value.id in py.classes:
                owner = cls if f.value.id in ("self", "cls") else f.value.id
                r = py.resolve_method(owner, f.attr)
                if r is not None:
                    return r[1]
        if isinstance(f, ast.Name) and module is not None and f"{module}.{f.id}" in py.functions:
            return py.functions[f"{module}.{f.id}"]
        return None
    return resolve


def implied_none_tests(ev: Event) -> Dict[str, bool]:
    """variables the event's path conditions force to be None (True) / not None (False):
    `x is None`, `not x`, `x is not None`, `x` - with polarity applied"""
    out: Dict[str, bool] = {}

    def visit(t: ast.AST, pol: bool, subst):
        if isinstance(t, ast.BoolOp):
            if isinstance(t.op, ast.And) and pol or isinstance(t.op, ast.Or) and not pol:
                for v in t.values:
                    visit(v, pol, subst)
            return
        if isinstance(t, ast.UnaryOp) and isinstance(t.op, ast.Not):
            visit(t.operand, not pol, subst)
            return
        if isinstance(t, ast.Compare) and len(t.ops) == 1 and isinstance(t.comparators[0], ast.Constant) \
                and t.comparators[0].value is None:
            name = unparse_subst(t.left, subst)
            if isinstance(t.left, ast.NamedExpr):
                name = ast.unparse(t.left.target)
            if isinstance(t.ops[0], ast.Is):
                out[name] = pol
            elif isinstance(t.ops[0], ast.IsNot):
                out[name] = not pol
            return
        if isinstance(t, (ast.Name, ast.Attribute, ast.NamedExpr)):
            name = ast.unparse(t.target) if isinstance(t, ast.NamedExpr) else unparse_subst(t, subst)
            out[name] = not pol
    for test, pol, subst in ev.conds:
        visit(test, pol, subst)
    return out


def assigned_on_every_path(events: List[Event], target: str) -> bool:
    """is `target` assigned on every path through the traced function?  (an unconditional assignment, or assignments
    in both branches of the same test)"""
    asg = [e for e in events if e.kind == "assign" and e.target == target and e.depth == 0]

    def covered(prefix: Tuple) -> bool:
        # assignments whose condition list starts with prefix
        here = [e for e in asg if tuple((id(t), p) for t, p, _ in e.conds)[:len(prefix)] == prefix]
        if any(len(e.conds) == len(prefix) for e in here):
            return True
        tests = {}
        for e in here:
            t, p, _ = e.conds[len(prefix)]
            tests.setdefault(id(t), set()).add(p)
        for tid, pols in tests.items():
            if pols == {True, False} and covered(prefix + ((tid, True),)) and covered(prefix + ((tid, False),)):
                return True
        return False
    return covered(())


# ----------------------------------------------------------------------------- where do the elements of a list come from
class ElemSources:
    """Flow-insensitive provenance of the *elements* of list-valued expressions inside one module.

    sources(expr, fn) -> set of tags:  'LISTING' (os.listdir/scandir/iterdir of a directory), 'attr:<name>' (an
    attribute read such as node.ordered_subpages), 'lit' (literals), 'param:<f>.<p>' (unresolved parameter), '?'.
    Module-level helper functions are followed through their return expressions with parameters bound to the
    arguments of the call; membership filters (`x in T` guarding an append / a comprehension) narrow the result to
    the sources of T."""

    LISTING_CALLS = ("os.listdir", "listdir", "os.scandir", "scandir")

    def __init__(self, py, module: str):
        self.py, self.module = py, module

    def sources(self, e: ast.AST, fn: ast.AST, binds: Optional[Dict[str, Tuple[ast.AST, ast.AST, dict]]] = None,
                depth: int = 0, seen: Optional[Set] = None) -> Set[str]:
        binds = binds or {}
        seen = seen if seen is not None else set()
        if depth > 24:
            return {"?"}
        rec = lambda x, f=fn, b=binds: self.sources(x, f, b, depth + 1, seen)  # noqa: E731
        if isinstance(e, ast.Constant):
            return {"lit"}
        if isinstance(e, (ast.List, ast.Tuple, ast.Set)):
            out: Set[str] = set()
            for x in e.elts:
                out |= rec(x.value) if isinstance(x, ast.Starred) else ({"lit"} if isinstance(x, ast.Constant) else self.scalar(x, fn, binds, depth, seen))
            return out
        if isinstance(e, ast.BinOp) and isinstance(e.op, ast.Add):
            return rec(e.left) | rec(e.right)
        if isinstance(e, ast.IfExp):
            return rec(e.body) | rec(e.orelse)
        if isinstance(e, ast.BoolOp):
            out = set()
            for v in e.values:
                out |= rec(v)
            return out
        if isinstance(e, ast.Attribute):
            return {f"attr:{e.attr}"}
        if isinstance(e, (ast.ListComp, ast.GeneratorExp, ast.SetComp)) and len(e.generators) == 1:
            g = e.generators[0]
            def projection(x: ast.AST) -> bool:
                """x is the loop variable or something read off it alone (`entry.name`, `str(p)`, `p.lower()`): its
                provenance is that of the iterated collection"""
                if isinstance(x, ast.Name):
                    return x.id == g.target.id
                if isinstance(x, ast.Attribute):
                    return projection(x.value)
                if isinstance(x, ast.Call) and isinstance(x.func, ast.Attribute) and not x.args and not x.keywords:
                    return projection(x.func.value)
                if isinstance(x, ast.Call) and call_name(x) in ("str", "os.fspath", "os.path.basename", "Path", "pathlib.Path") and \
                        len(x.args) == 1 and not x.keywords:
                    return projection(x.args[0])
                return False
            if isinstance(g.target, ast.Name) and projection(e.elt):
                for c in g.ifs:
                    t = self._membership(c, g.target.id)
                    if t is not None and isinstance(e.elt, ast.Name):
                        return rec(t)
                return rec(g.iter)
            return {"?"}
        if isinstance(e, ast.Call):
            cn = call_name(e)
            last = cn.split(".")[-1]
            if cn in self.LISTING_CALLS or last == "iterdir":
                return {"LISTING"}
            if last in ("sorted", "list", "tuple", "set", "reversed", "fromkeys", "unique", "copy") and e.args:
                return rec(e.args[0])
            if last in ("chain",) and e.args:
                out = set()
                for a in e.args:
                    out |= rec(a.value) if isinstance(a, ast.Starred) else rec(a)
                return out
            if last in ("getattr",) and len(e.args) >= 2 and isinstance(e.args[1], ast.Constant):
                return {f"attr:{e.args[1].value}"}
            if last == "copy" and isinstance(e.func, ast.Attribute):
                return rec(e.func.value)
            if isinstance(e.func, ast.Name) and f"{self.module}.{e.func.id}" in self.py.functions:
                h = self.py.functions[f"{self.module}.{e.func.id}"]
                key = (h.name, tuple(ast.unparse(a) for a in e.args))
                if key in seen:
                    return set()
                seen.add(key)
                b2 = {k: (v, fn, binds) for k, v in bind_args(e, h).items()}
                out = set()
                for r in returns(h):
                    out |= self.sources(r, h, b2, depth + 1, seen)
                return out or {"?"}
            return {"?"}
        if isinstance(e, ast.Name):
            key = (id(fn), e.id, tuple(sorted(binds)))
            if key in seen:
                return set()
            seen.add(key)
            out = set()
            params = [a.arg for a in fn.args.posonlyargs + fn.args.args + fn.args.kwonlyargs]
            defs = 0
            for n in ast.walk(fn):
                if isinstance(n, (ast.Assign, ast.AnnAssign)) and getattr(n, "value", None) is not None:
                    tg = n.targets if isinstance(n, ast.Assign) else [n.target]
                    if any(e.id in target_names(t) for t in tg):
                        out |= rec(n.value)
                        defs += 1
                elif isinstance(n, ast.AugAssign) and e.id in target_names(n.target):
                    out |= rec(n.value)
                    defs += 1
                elif isinstance(n, ast.Call) and isinstance(n.func, ast.Attribute) and isinstance(n.func.value, ast.Name) \
                        and n.func.value.id == e.id and n.func.attr in ("append", "extend", "insert", "add", "update") and n.args:
                    arg = n.args[-1]
                    if n.func.attr in ("extend", "update"):
                        out |= rec(arg)
                    else:
                        out |= self.scalar(arg, fn, binds, depth + 1, seen, at=n)
                    defs += 1
            if e.id in params:
                if e.id in binds:
                    v, f2, b2 = binds[e.id]
                    out |= self.sources(v, f2, b2, depth + 1, seen)
                elif not defs:
                    out |= {f"param:{fn.name}.{e.id}"}
            elif not defs:
                out |= {"?"}
            return out
        return {"?"}

    @staticmethod
    def _membership(test: ast.AST, var: str) -> Optional[ast.AST]:
        """T if the test (a conjunct of it) is `var in T`"""
        for n in ([test] + (list(test.values) if isinstance(test, ast.BoolOp) and isinstance(test.op, ast.And) else [])):
            if isinstance(n, ast.Compare) and len(n.ops) == 1 and isinstance(n.ops[0], ast.In) and \
                    isinstance(n.left, ast.Name) and n.left.id == var:
                return n.comparators[0]
        return None

    def scalar(self, x: ast.AST, fn: ast.AST, binds, depth, seen, at: Optional[ast.AST] = None) -> Set[str]:
        """sources of a single element value x (a loop variable stands for the elements of what it iterates); a
        membership test `x in T` on the path to `at` narrows it to the sources of T"""
        if isinstance(x, ast.Constant):
            return {"lit"}
        if isinstance(x, ast.Name):
            par = parents_of(fn)
            if at is not None:
                for t, pol in conditions_of(at, par, stop=fn):
                    m = self._membership(t, x.id) if pol else None
                    if m is not None:
                        return self.sources(m, fn, binds, depth + 1, seen)
                # an earlier `if x not in T: continue`
                blk = par.get(at)
                while blk is not None and not isinstance(blk, (ast.For, ast.While, ast.FunctionDef)):
                    blk = par.get(blk)
                if isinstance(blk, (ast.For, ast.While)):
                    for g in preceding_guards(blk.body, at):
                        tt = g.test
                        if isinstance(tt, ast.Compare) and len(tt.ops) == 1 and isinstance(tt.ops[0], ast.NotIn) and \
                                isinstance(tt.left, ast.Name) and tt.left.id == x.id:
                            return self.sources(tt.comparators[0], fn, binds, depth + 1, seen)
            for n in ast.walk(fn):
                if isinstance(n, (ast.For, ast.comprehension)) and isinstance(n.target, ast.Name) and n.target.id == x.id:
                    return self.sources(n.iter, fn, binds, depth + 1, seen)
            return {"?"}
        if isinstance(x, ast.Attribute):
            return {f"attr:{x.attr}"}
        return {"?"}


def trace_block(stmts: Sequence[ast.stmt], host: ast.AST, resolve=None, max_depth: int = 2) -> List[Event]:
    """trace of a statement list that lives inside `host` (closures of host stay visible)"""
    fake = ast.FunctionDef(name="<block>", args=host.args, body=list(stmts), decorator_list=[], returns=None, type_comment=None,
                           lineno=getattr(stmts[0], "lineno", 0) if stmts else 0, col_offset=0)
    closures = [n for st in host.body for n in ast.walk(st) if isinstance(n, (ast.FunctionDef, ast.AsyncFunctionDef))]
    if closures:
        fake.body = closures + fake.body
    return trace(fake, resolve, max_depth)


def mentions_whole(expr: ast.AST, text: str, fn: Optional[ast.AST] = None) -> bool:
    """like mentions(), but the sub-expression must be used as a whole: `self.location` counts, `self.location.name`
    (an attribute *of* it) does not"""
    exprs = expand_locals(expr, fn) if fn is not None else [expr]
    for e in exprs:
        par = parents_of(e)
        for n in ast.walk(e):
            if isinstance(n, (ast.Name, ast.Attribute, ast.Subscript, ast.Call)):
                try:
                    if ast.unparse(n) != text:
                        continue
                except Exception:
                    continue
                p = par.get(n)
                if isinstance(p, ast.Attribute) and p.value is n:
                    continue
                return True
    return False


# ----------------------------------------------------------------------------- propositional evaluation
def truth_table(expr: ast.AST, atom, n_atoms_max: int = 6):
    """Evaluates a boolean expression built from and / or / not / parentheses over atoms.  `atom(node)` returns a
    (name, polarity) pair for a node it recognises as an atomic proposition (e.g. ('blank', True)), or None to let the
    walk descend.  Returns (names, {assignment tuple: bool}) or None when a sub-expression is neither a connective nor a
    recognised atom."""
    names: List[str] = []

    def collect(e) -> bool:
        a = atom(e)
        if a is not None:
            if a[0] not in names:
                names.append(a[0])
            return True
        if isinstance(e, ast.BoolOp):
            return all(collect(v) for v in e.values)
        if isinstance(e, ast.UnaryOp) and isinstance(e.op, ast.Not):
            return collect(e.operand)
        if isinstance(e, ast.Constant) and isinstance(e.value, bool):
            return True
        return False

    if not collect(expr) or len(names) > n_atoms_max:
        return None

    def ev(e, env) -> bool:
        a = atom(e)
        if a is not None:
            return env[a[0]] == a[1]
        if isinstance(e, ast.BoolOp):
            vals = [ev(v, env) for v in e.values]
            return all(vals) if isinstance(e.op, ast.And) else any(vals)
        if isinstance(e, ast.UnaryOp):
            return not ev(e.operand, env)
        return bool(e.value)

    import itertools
    table = {}
    for bits in itertools.product((False, True), repeat=len(names)):
        table[bits] = ev(expr, dict(zip(names, bits)))
    return names, table


def eval_cond(e: ast.AST, atom, env: Dict[str, bool]) -> Optional[bool]:
    """three-valued evaluation of a condition: `atom(node)` maps a recognised sub-expression to (name, polarity); atoms not
    in env, and anything that is neither a connective nor an atom, are unknown (None)"""
    a = atom(e)
    if a is not None:
        v = env.get(a[0])
        return None if v is None else (v == a[1])
    if isinstance(e, ast.Constant) and isinstance(e.value, bool):
        return e.value
    if isinstance(e, ast.UnaryOp) and isinstance(e.op, ast.Not):
        v = eval_cond(e.operand, atom, env)
        return None if v is None else not v
    if isinstance(e, ast.BoolOp):
        vals = [eval_cond(v, atom, env) for v in e.values]
        if isinstance(e.op, ast.And):
            if any(v is False for v in vals):
                return False
            return True if all(v is True for v in vals) else None
        if any(v is True for v in vals):
            return True
        return False if all(v is False for v in vals) else None
    return None


def event_fires(ev: "Event", atom, env: Dict[str, bool]) -> Optional[bool]:
    """does the event run under the truth assignment env?  (False if some condition is false, True if all are true,
    None if it depends on something else)"""
    res: Optional[bool] = True
    for test, pol, _subst in ev.conds:
        v = eval_cond(test, atom, env)
        if v is None:
            res = None if res is not False else res
            continue
        if v != pol:
            return False
    return res


def base_name(name: str) -> str:
    """local names of inlined helpers carry the suffix `__<helper>` (sa/inline.py); the name the author wrote"""
    return re.sub(r"(?<=[A-Za-z0-9])__[A-Za-z0-9_]+$", "", name)


def alternatives(expr: ast.AST, fn: ast.AST, depth: int = 3) -> List[Tuple[ast.AST, List[Tuple[ast.AST, bool]]]]:
    """the values `expr` can take, each with the conditions under which it does: locals that are assigned exactly once are
    replaced by their value, conditional expressions are split into their two branches, and `"" + x` is x.
    [(expression, [(test, polarity), ...]), ...]"""
    import copy as _copy

    def single_defs() -> Dict[str, ast.AST]:
        cnt: Dict[str, List[ast.AST]] = {}
        for n in ast.walk(fn):
            if isinstance(n, ast.Assign):
                for t in n.targets:
                    if isinstance(t, ast.Name):
                        cnt.setdefault(t.id, []).append(n.value)
            elif isinstance(n, (ast.AugAssign, ast.AnnAssign)) and isinstance(n.target, ast.Name):
                cnt.setdefault(n.target.id, []).append(None)
            elif isinstance(n, (ast.For, ast.comprehension)):
                for x in ast.walk(n.target):
                    if isinstance(x, ast.Name):
                        cnt.setdefault(x.id, []).append(None)
        return {k: v[0] for k, v in cnt.items() if len(v) == 1 and v[0] is not None}
    defs = single_defs()

    class Sub(ast.NodeTransformer):
        def visit_Name(self, n):
            if isinstance(n.ctx, ast.Load) and n.id in defs:
                return _copy.deepcopy(defs[n.id])
            return n
    e = _copy.deepcopy(expr)
    for _ in range(depth):
        e = Sub().visit(e)

    # identity-preserving replacement: work on a fresh copy per IfExp
    def split2(x: ast.AST):
        ifs = [n for n in ast.walk(x) if isinstance(n, ast.IfExp)]
        if not ifs:
            return [(x, [])]
        n = ifs[0]
        res = []
        for pol in (True, False):
            y = (n.body if pol else n.orelse) if x is n else None
            if y is None:
                # deep copy while remembering which copy corresponds to n
                memo: Dict[int, ast.AST] = {}
                xc = _copy.deepcopy(x, memo)
                nc = memo[id(n)]

                class R2(ast.NodeTransformer):
                    def visit_IfExp(self, m):
                        if m is nc:
                            return m.body if pol else m.orelse
                        return self.generic_visit(m)
                y = R2().visit(xc)
            for z, cs in split2(y):
                res.append((z, [(n.test, pol)] + cs))
        return res

    def simplify(x: ast.AST) -> ast.AST:
        class S(ast.NodeTransformer):
            def visit_BinOp(self, b):
                self.generic_visit(b)
                if isinstance(b.op, ast.Add):
                    if isinstance(b.left, ast.Constant) and b.left.value == "":
                        return b.right
                    if isinstance(b.right, ast.Constant) and b.right.value == "":
                        return b.left
                return b
        return S().visit(x)
    return [(simplify(z), cs) for z, cs in split2(e)]


def path_implies(ev: "Event", atom, want: Dict[str, bool], max_atoms: int = 10) -> Optional[bool]:
    """Do the conditions under which the event runs imply `want` (atom name -> value)?  Decided by enumerating the truth
    assignments of all atomic propositions that occur in the conditions: `atom(node)` names the ones the caller knows
    ((name, polarity)), every other non-connective sub-expression is a free proposition of its own.  None if there are too
    many atoms."""
    import itertools
    free: Dict[str, None] = {}

    def full_atom(e):
        a = atom(e)
        if a is not None:
            return a
        if isinstance(e, (ast.BoolOp,)) or (isinstance(e, ast.UnaryOp) and isinstance(e.op, ast.Not)) or \
                (isinstance(e, ast.Constant) and isinstance(e.value, bool)):
            return None
        return ("?" + ast.unparse(e), True)

    def collect(e):
        a = full_atom(e)
        if a is not None:
            free.setdefault(a[0])
            return
        if isinstance(e, ast.BoolOp):
            for v in e.values:
                collect(v)
        elif isinstance(e, ast.UnaryOp):
            collect(e.operand)
    for t, _p, _s in ev.conds:
        collect(t)
    for k in want:
        free.setdefault(k)
    names = list(free)
    if len(names) > max_atoms:
        return None
    some = False
    for bits in itertools.product((False, True), repeat=len(names)):
        env = dict(zip(names, bits))
        if all(eval_cond(t, full_atom, env) == p for t, p, _s in ev.conds):
            some = True
            if any(env[k] != v for k, v in want.items()):
                return False
    return True if some else None
