"""E1 — resolved program model of ford/*.py built from the ast only (nothing is imported)."""
from __future__ import annotations

import ast
import re
from dataclasses import dataclass, field
from pathlib import Path
from typing import Dict, Iterable, Iterator, List, Optional, Set, Tuple

from .core import AnalysisError


@dataclass
class ClassInfo:
    name: str
    module: str
    node: ast.ClassDef
    bases: List[str]
    methods: Dict[str, ast.FunctionDef] = field(default_factory=dict)
    class_attrs: Dict[str, ast.AST] = field(default_factory=dict)
    properties: Set[str] = field(default_factory=set)


class ClassRef:
    """a class of the analysed package used as a value in a constant expression"""
    __slots__ = ("name",)

    def __init__(self, name):
        self.name = name

    def __repr__(self):
        return self.name

    def __eq__(self, o):
        return isinstance(o, ClassRef) and o.name == self.name

    def __hash__(self):
        return hash(("ClassRef", self.name))


class PyModel:
    def __init__(self, root: Path):
        self.root = Path(root)
        self.pkg = self.root / "ford"
        if not self.pkg.is_dir():
            raise AnalysisError(f"{self.pkg} is not a directory")
        self.modules: Dict[str, ast.Module] = {}
        self.sources: Dict[str, str] = {}
        self.classes: Dict[str, ClassInfo] = {}
        self.functions: Dict[str, ast.FunctionDef] = {}  # "module.func"
        self.parents: Dict[ast.AST, ast.AST] = {}
        self.node_module: Dict[ast.AST, str] = {}
        for p in sorted(self.pkg.glob("*.py")):
            if p.name == "_version.py":
                continue
            src = p.read_text(encoding="utf-8")
            try:
                tree = ast.parse(src, filename=str(p))
            except SyntaxError as e:
                raise AnalysisError(f"cannot parse {p}: {e}")
            mod = p.stem
            self.modules[mod] = tree
            self.sources[mod] = src
        # canonical form: a second copy of every module in which small private helpers are inlined at their call sites
        # (sa/inline.py); rules whose subject may be cut into helpers differently read functions through ifunc()/imethod()
        import copy as _copy
        from . import inline
        self.imodules: Dict[str, ast.Module] = {m: _copy.deepcopy(t) for m, t in self.modules.items()}
        self.inline_stats = inline.normalise(self.imodules)
        for mod, tree in self.imodules.items():
            for n in ast.walk(tree):
                for c in ast.iter_child_nodes(n):
                    self.parents[c] = n
        for mod, tree in self.modules.items():
            for n in ast.walk(tree):
                for c in ast.iter_child_nodes(n):
                    self.parents[c] = n
            for n in tree.body:
                if isinstance(n, ast.ClassDef):
                    ci = ClassInfo(n.name, mod, n, [self._base_name(b) for b in n.bases])
                    for m in n.body:
                        if isinstance(m, (ast.FunctionDef, ast.AsyncFunctionDef)):
                            decos = [ast.unparse(d) for d in m.decorator_list]
                            if any(d.endswith(".setter") for d in decos):
                                continue
                            ci.methods[m.name] = m
                            if "property" in decos:
                                ci.properties.add(m.name)
                        elif isinstance(m, ast.Assign):
                            for t in m.targets:
                                if isinstance(t, ast.Name):
                                    ci.class_attrs[t.id] = m.value
                        elif isinstance(m, ast.AnnAssign) and isinstance(m.target, ast.Name):
                            ci.class_attrs[m.target.id] = m.value
                    if n.name in self.classes:
                        raise AnalysisError(f"duplicate class name {n.name}")
                    self.classes[n.name] = ci
                elif isinstance(n, (ast.FunctionDef, ast.AsyncFunctionDef)):
                    self.functions[f"{mod}.{n.name}"] = n
        self._mro_cache: Dict[str, List[str]] = {}

    # ------------------------------------------------------------------ basics
    @staticmethod
    def _base_name(b: ast.AST) -> str:
        if isinstance(b, ast.Name):
            return b.id
        if isinstance(b, ast.Attribute):
            return b.attr
        return ast.unparse(b)

    def loc(self, mod: str, node: ast.AST) -> str:
        return f"ford/{mod}.py:{getattr(node, 'orig_lineno', getattr(node, 'lineno', 0))}"

    def module_of(self, node: ast.AST) -> str:
        n = node
        while n in self.parents:
            n = self.parents[n]
        for m, t in self.modules.items():
            if t is n:
                return m
        for m, t in self.imodules.items():
            if t is n:
                return m
        raise AnalysisError("node without module")

    def nloc(self, node: ast.AST) -> str:
        return self.loc(self.module_of(node), node)

    def cls(self, name: str) -> ClassInfo:
        if name not in self.classes:
            raise AnalysisError(f"class {name} not found (anchor vanished)")
        return self.classes[name]

    def func(self, qual: str) -> ast.FunctionDef:
        """'module.func' or 'Class.method' (method resolved on the class itself)."""
        if qual in self.functions:
            return self.functions[qual]
        a, _, b = qual.partition(".")
        if a in self.classes and b in self.classes[a].methods:
            return self.classes[a].methods[b]
        raise AnalysisError(f"function {qual} not found (anchor vanished)")

    def ifunc(self, qual: str) -> ast.FunctionDef:
        """the canonical (helper-inlined) version of func(qual)"""
        raw = self.func(qual)
        mod = self.module_of(raw)
        cls = self.enclosing_class(raw)
        for n in self.imodules[mod].body:
            if cls is None and isinstance(n, ast.FunctionDef) and n.name == raw.name:
                return n
            if cls is not None and isinstance(n, ast.ClassDef) and n.name == cls:
                for m in n.body:
                    if isinstance(m, ast.FunctionDef) and m.name == raw.name and getattr(m, "orig_lineno", m.lineno) == raw.lineno:
                        return m
        raise AnalysisError(f"canonical form of {qual} not found")

    def has_func(self, qual: str) -> bool:
        try:
            self.func(qual)
            return True
        except AnalysisError:
            return False

    def mro(self, name: str) -> List[str]:
        if name in self._mro_cache:
            return self._mro_cache[name]
        ci = self.classes.get(name)
        if ci is None:
            return [name]
        seqs = [self.mro(b) for b in ci.bases if b in self.classes] + \
               [[b for b in ci.bases if b in self.classes]]
        res = [name]
        seqs = [list(s) for s in seqs if s]
        while seqs:
            for s in seqs:
                head = s[0]
                if not any(head in t[1:] for t in seqs):
                    break
            else:
                raise AnalysisError(f"inconsistent MRO for {name}")
            res.append(head)
            for t in seqs:
                if t and t[0] == head:
                    del t[0]
            seqs = [t for t in seqs if t]
        self._mro_cache[name] = res
        return res

    def is_subclass(self, a: str, b: str) -> bool:
        return b in self.mro(a)

    def subclasses(self, b: str) -> List[str]:
        return [c for c in self.classes if self.is_subclass(c, b)]

    def resolve_method(self, cls: str, name: str, after: Optional[str] = None
                       ) -> Optional[Tuple[str, ast.FunctionDef]]:
        """Find method `name` in the MRO of cls (after class `after` for super())."""
        mro = self.mro(cls)
        if after is not None:
            if after not in mro:
                return None
            mro = mro[mro.index(after) + 1:]
        for c in mro:
            ci = self.classes.get(c)
            if ci and name in ci.methods:
                return c, ci.methods[name]
        return None

    def path_values(self, cls: str, attr: str, env: Optional[Dict[str, str]] = None, depth: int = 0) -> Set[str]:
        """Symbolic values of the path-valued attribute/property `self.<attr>` of class `cls` as '/'-joined text with
        placeholders: properties and constructor assignments are resolved through the MRO (so a property inherited from a base
        class is evaluated with the subclass's overrides), `a / b`, `Path(a, b)`, `joinpath`, f-strings and module constants are
        composed, and `env` maps source texts to placeholders ({"self.out_dir": "{out}"}).  Unknown parts become `{<text>}`."""
        env = env or {}
        if depth > 8:
            return {"{...}"}
        key = f"self.{attr}"
        if key in env:
            return {env[key]}
        found = self.resolve_method(cls, attr)
        exprs: List[Tuple[ast.AST, str]] = []
        if found is not None:
            owner, fn = found
            if any(ast.unparse(d) in ("property", "functools.cached_property", "cached_property") for d in fn.decorator_list):
                exprs = [(r.value, self.module_of(fn)) for r in ast.walk(fn) if isinstance(r, ast.Return) and r.value is not None]
        if not exprs:
            for c in self.mro(cls):
                ci = self.classes.get(c)
                if not ci:
                    continue
                if attr in ci.class_attrs:
                    exprs = [(ci.class_attrs[attr], ci.module)]
                    break
                for m in ci.methods.values():
                    for st in ast.walk(m):
                        if isinstance(st, ast.Assign) and any(ast.unparse(t) == key for t in st.targets):
                            exprs.append((st.value, ci.module))
                if exprs:
                    break
        if not exprs:
            return {"{" + key + "}"}
        out: Set[str] = set()
        for e, mod in exprs:
            out |= self._path_expr(cls, e, env, mod, depth)
        return out

    def _path_expr(self, cls: str, e: ast.AST, env: Dict[str, str], mod: str, depth: int) -> Set[str]:
        t = ast.unparse(e)
        if t in env:
            return {env[t]}

        def combine(parts: List[Set[str]], sep: str = "/") -> Set[str]:
            acc = {""}
            for ps in parts:
                acc = {(a + sep + b if a and b else a + b) for a in acc for b in ps}
                if len(acc) > 32:
                    break
            return acc
        if isinstance(e, ast.Constant) and isinstance(e.value, str):
            return {e.value.strip("/") if e.value != "/" else "/"}
        if isinstance(e, ast.BinOp) and isinstance(e.op, ast.Div):
            return combine([self._path_expr(cls, e.left, env, mod, depth), self._path_expr(cls, e.right, env, mod, depth)])
        if isinstance(e, ast.BinOp) and isinstance(e.op, ast.Add):
            return combine([self._path_expr(cls, e.left, env, mod, depth), self._path_expr(cls, e.right, env, mod, depth)], "")
        if isinstance(e, ast.JoinedStr):
            parts = []
            for v in e.values:
                parts.append({v.value} if isinstance(v, ast.Constant) else self._path_expr(cls, v.value, env, mod, depth))
            return combine(parts, "")
        if isinstance(e, ast.Call):
            cn = call_name(e)
            if cn.split(".")[-1] in ("Path", "PurePath", "PurePosixPath") and e.args:
                return combine([self._path_expr(cls, a, env, mod, depth) for a in e.args])
            if isinstance(e.func, ast.Attribute) and e.func.attr == "joinpath":
                return combine([self._path_expr(cls, e.func.value, env, mod, depth)] +
                               [self._path_expr(cls, a, env, mod, depth) for a in e.args])
            if cn in ("str", "os.fspath") and len(e.args) == 1:
                return self._path_expr(cls, e.args[0], env, mod, depth)
            if cn == "os.path.join":
                return combine([self._path_expr(cls, a, env, mod, depth) for a in e.args])
        if isinstance(e, ast.Attribute) and isinstance(e.value, ast.Name) and e.value.id == "self":
            return self.path_values(cls, e.attr, env, depth + 1)
        if isinstance(e, ast.Name):
            v = self.eval_const(e, self.module_env(mod))
            if isinstance(v, str):
                return {v.strip("/")}
            tree = self.modules.get(mod)
            if tree is not None:
                for st in tree.body:
                    if isinstance(st, ast.Assign) and any(isinstance(x, ast.Name) and x.id == e.id for x in st.targets):
                        return self._path_expr(cls, st.value, env, mod, depth + 1)
        return {"{" + t + "}"}

    def class_level_names(self, cls: str) -> Set[str]:
        out: Set[str] = set()
        for c in self.mro(cls):
            ci = self.classes.get(c)
            if ci:
                out |= set(ci.methods) | set(ci.class_attrs)
        return out

    # ------------------------------------------------- constructor attribute sets
    def init_attrs(self, cls: str, stop_at_loop: bool = True) -> Set[str]:
        """Instance attributes assigned (self.X = ..) on the construction path of a
        concrete class, processed in program order with `del self.X` removing; if
        stop_at_loop, simulation ends when the statement-dispatch loop
        (`for line in source`) is reached, i.e. the set is what hasattr() sees there."""
        state: Set[str] = set()
        init = self.resolve_method(cls, "__init__")
        if init is None:
            return state

        class Stop(Exception):
            pass

        depth = [0]

        def sim_func(owner: str, fn: ast.FunctionDef):
            depth[0] += 1
            if depth[0] > 12:
                raise AnalysisError("constructor simulation too deep")
            sim_body(owner, fn.body)
            depth[0] -= 1

        def sim_body(owner: str, body: List[ast.stmt]):
            for st in body:
                sim_stmt(owner, st)

        def targets_self(t: ast.AST) -> Iterator[str]:
            if isinstance(t, ast.Attribute) and isinstance(t.value, ast.Name) and t.value.id == "self":
                yield t.attr
            elif isinstance(t, (ast.Tuple, ast.List)):
                for e in t.elts:
                    yield from targets_self(e)

        def sim_calls(owner: str, node: ast.AST):
            for c in ast.walk(node):
                if not isinstance(c, ast.Call):
                    continue
                f = c.func
                if isinstance(f, ast.Attribute):
                    # self.method(...)
                    if isinstance(f.value, ast.Name) and f.value.id == "self":
                        r = self.resolve_method(cls, f.attr)
                        if r and f.attr in ("_initialize", "_common_initialize",
                                            "_procedure_initialize", "_parse_bind_C"):
                            sim_func(*r)
                    # super().method(...)
                    elif (isinstance(f.value, ast.Call) and isinstance(f.value.func, ast.Name)
                          and f.value.func.id == "super"):
                        r = self.resolve_method(cls, f.attr, after=owner)
                        if r:
                            sim_func(*r)
                    # Base.__init__(self, ...)
                    elif (isinstance(f.value, ast.Name) and f.value.id in self.classes
                          and c.args and isinstance(c.args[0], ast.Name) and c.args[0].id == "self"):
                        ci = self.classes[f.value.id]
                        if f.attr in ci.methods:
                            sim_func(f.value.id, ci.methods[f.attr])

        def sim_stmt(owner: str, st: ast.stmt):
            if isinstance(st, ast.For):
                if (stop_at_loop and owner == "FortranContainer"
                        and isinstance(st.iter, ast.Name) and st.iter.id == "source"):
                    raise Stop()
                sim_calls(owner, st.iter)
                sim_body(owner, st.body)
                sim_body(owner, st.orelse)
            elif isinstance(st, (ast.If, ast.While)):
                sim_calls(owner, st.test)
                sim_body(owner, st.body)
                sim_body(owner, st.orelse)
            elif isinstance(st, ast.With):
                sim_body(owner, st.body)
            elif isinstance(st, ast.Try):
                sim_body(owner, st.body)
                for h in st.handlers:
                    sim_body(owner, h.body)
                sim_body(owner, st.orelse)
                sim_body(owner, st.finalbody)
            elif isinstance(st, ast.Assign):
                sim_calls(owner, st.value)
                for t in st.targets:
                    for a in targets_self(t):
                        state.add(a)
            elif isinstance(st, ast.AnnAssign):
                if st.value is not None:
                    sim_calls(owner, st.value)
                    for a in targets_self(st.target):
                        state.add(a)
            elif isinstance(st, ast.AugAssign):
                sim_calls(owner, st.value)
            elif isinstance(st, ast.Delete):
                for t in st.targets:
                    for a in targets_self(t):
                        state.discard(a)
            elif isinstance(st, (ast.Expr, ast.Return)):
                if st.value is not None:
                    sim_calls(owner, st.value)

        try:
            sim_func(*init)
        except Stop:
            pass
        return state

    def hasattr_set(self, cls: str) -> Set[str]:
        """Names for which hasattr(self, name) is true inside the dispatch loop."""
        return self.init_attrs(cls) | self.class_level_names(cls)

    # ----------------------------------------------------------- regex constants
    _UNKNOWN = object()

    def eval_const(self, node: ast.AST, env: Optional[Dict[str, object]] = None):
        """Partial evaluator for constant expressions (str / int / tuple / list / dict built from literals, other
        constants, +, %, f-strings, str.join/format/lower/upper/strip, re.escape, dict(...), tuple(...), zip,
        dict.fromkeys, {**a, **b}).  Returns PyModel._UNKNOWN when the value is not a compile-time constant."""
        U = PyModel._UNKNOWN
        env = env or {}
        ev = lambda n: self.eval_const(n, env)  # noqa: E731
        if isinstance(node, ast.Constant):
            return node.value
        if isinstance(node, ast.Name):
            if node.id not in env and node.id in getattr(self, "classes", {}):
                return ClassRef(node.id)        # a class of the package, as a value (tables of classes, `cls.__name__`)
            return env.get(node.id, U)
        if isinstance(node, ast.Attribute) and node.attr == "__name__":
            v = ev(node.value)
            return v.name if isinstance(v, ClassRef) else U
        if isinstance(node, (ast.Attribute, ast.Call, ast.Subscript)) and env.get("__by_text__"):
            # symbolic placeholders keyed by source text, e.g. {"self.ident": "{ident}"}
            k = ast.unparse(node)
            if k in env:
                return env[k]
        if isinstance(node, (ast.Tuple, ast.List, ast.Set)):
            out = []
            for e in node.elts:
                if isinstance(e, ast.Starred):
                    v = ev(e.value)
                    if v is U or not isinstance(v, (tuple, list)):
                        return U
                    out.extend(v)
                    continue
                v = ev(e)
                if v is U:
                    return U
                out.append(v)
            return tuple(out) if isinstance(node, ast.Tuple) else out
        if isinstance(node, ast.Dict):
            d = {}
            for k, v in zip(node.keys, node.values):
                vv = ev(v)
                if vv is U:
                    return U
                if k is None:
                    if not isinstance(vv, dict):
                        return U
                    d.update(vv)
                else:
                    kk = ev(k)
                    if kk is U:
                        return U
                    d[kk] = vv
            return d
        if isinstance(node, ast.BinOp):
            a, b = ev(node.left), ev(node.right)
            if a is U or b is U:
                return U
            try:
                if isinstance(node.op, ast.Add):
                    return a + b
                if isinstance(node.op, ast.Mod):
                    return a % b
                if isinstance(node.op, ast.Mult):
                    return a * b
                if isinstance(node.op, ast.BitOr) and isinstance(a, dict) and isinstance(b, dict):
                    return {**a, **b}
                if isinstance(node.op, ast.BitOr) and isinstance(a, (list, tuple)) and isinstance(b, (list, tuple)):
                    return list(a) + [x for x in b if x not in a]      # set union (sets are modelled as lists)
            except Exception:
                return U
            return U
        if isinstance(node, ast.JoinedStr):
            out = ""
            for v in node.values:
                if isinstance(v, ast.Constant):
                    out += str(v.value)
                elif isinstance(v, ast.FormattedValue):
                    x = ev(v.value)
                    if x is U or v.format_spec is not None and ev(v.format_spec) is U:
                        return U
                    spec = ev(v.format_spec) if v.format_spec is not None else ""
                    try:
                        x = {115: str, 114: repr, 97: ascii}.get(v.conversion, lambda y: y)(x)
                        out += format(x, spec)
                    except Exception:
                        return U
            return out
        if isinstance(node, (ast.GeneratorExp, ast.ListComp, ast.SetComp, ast.DictComp)):
            results = []

            def bind(t, xv, e2):
                if isinstance(t, ast.Name):
                    e2[t.id] = xv
                    return True
                if isinstance(t, (ast.Tuple, ast.List)):
                    try:
                        xs = list(xv)
                    except Exception:
                        return False
                    if len(xs) != len(t.elts):
                        return False
                    return all(bind(tt, xx, e2) for tt, xx in zip(t.elts, xs))
                return False

            def loop(gi, e2):
                if gi == len(node.generators):
                    if isinstance(node, ast.DictComp):
                        k, v = self.eval_const(node.key, e2), self.eval_const(node.value, e2)
                        if k is U or v is U:
                            return False
                        results.append((k, v))
                    else:
                        v = self.eval_const(node.elt, e2)
                        if v is U:
                            return False
                        results.append(v)
                    return True
                g = node.generators[gi]
                it = self.eval_const(g.iter, e2)
                if it is U or not isinstance(it, (tuple, list, dict, str)):
                    return False
                for x in list(it):
                    e3 = dict(e2)
                    if not bind(g.target, x, e3):
                        return False
                    conds = [self.eval_const(c, e3) for c in g.ifs]
                    if any(c is U for c in conds):
                        return False
                    if all(conds) and not loop(gi + 1, e3):
                        return False
                return True

            if not loop(0, dict(env)):
                return U
            return dict(results) if isinstance(node, ast.DictComp) else results
        if isinstance(node, ast.Compare) and len(node.ops) == 1:
            a, b = ev(node.left), ev(node.comparators[0])
            if a is U or b is U:
                return U
            op = node.ops[0]
            try:
                return {ast.Eq: a == b, ast.NotEq: a != b}.get(type(op), U) if not isinstance(op, (ast.In, ast.NotIn)) else \
                    ((a in b) if isinstance(op, ast.In) else (a not in b))
            except Exception:
                return U
        if isinstance(node, ast.Subscript) and isinstance(node.slice, ast.Slice):
            a = ev(node.value)
            parts = [None if x is None else ev(x) for x in (node.slice.lower, node.slice.upper, node.slice.step)]
            if a is U or any(x is U for x in parts):
                return U
            try:
                return a[slice(*parts)]
            except Exception:
                return U
        if isinstance(node, ast.Subscript):
            a, i = ev(node.value), ev(node.slice) if not isinstance(node.slice, ast.Slice) else U
            if a is U or i is U:
                return U
            try:
                return a[i]
            except Exception:
                return U
        if isinstance(node, ast.Call):
            cn = call_name(node)
            args = [ev(a) for a in node.args]
            kws = {k.arg: ev(k.value) for k in node.keywords}
            if isinstance(node.func, ast.Attribute):
                recv = ev(node.func.value)
                m = node.func.attr
                if recv is not U and isinstance(recv, str) and m in ("join", "format", "lower", "upper", "strip", "replace", "split", "rstrip", "lstrip", "splitlines", "casefold",
                                                                       "title", "capitalize", "startswith", "endswith", "removeprefix", "removesuffix",
                                                                       "rsplit", "partition", "rpartition", "isalpha", "isidentifier") \
                        and all(a is not U for a in args) and all(v is not U for v in kws.values()) and None not in kws:
                    try:
                        if m == "join":
                            return recv.join(args[0])
                        return getattr(recv, m)(*args, **kws)
                    except Exception:
                        return U
                if recv is not U and isinstance(recv, dict) and m in ("keys", "values", "items") and not args:
                    return list(getattr(recv, m)())
            if any(a is U for a in args) or any(v is U for v in kws.values()) or None in kws:
                # dict(**a, **b) style
                if cn == "dict" and not args and all(k.arg is None for k in node.keywords):
                    d = {}
                    for k in node.keywords:
                        v = ev(k.value)
                        if v is U or not isinstance(v, dict):
                            return U
                        d.update(v)
                    return d
                return U
            try:
                if cn == "re.escape" and len(args) == 1:
                    return re.escape(args[0])
                if cn == "dict":
                    return dict(*args, **kws)
                if cn in ("tuple", "list", "sorted", "set", "frozenset") and len(args) <= 1 and not kws:
                    r = {"tuple": tuple, "list": list, "sorted": sorted, "set": list, "frozenset": list}[cn](*args)
                    return r
                if cn == "zip":
                    return list(zip(*args))
                if cn == "enumerate":
                    return list(enumerate(*args, **kws))
                if cn == "dict.fromkeys":
                    return dict.fromkeys(*args)
                if cn == "str" and len(args) == 1:
                    return str(args[0])
                if cn == "len" and len(args) == 1 and not kws:
                    return len(args[0])
                if cn in ("str.maketrans",):
                    return str.maketrans(*args)
                if cn in ("chain", "itertools.chain"):
                    out = []
                    for a in args:
                        out.extend(a)
                    return out
            except Exception:
                return U
        return U

    def eval_str(self, node: ast.AST, env: Optional[Dict[str, object]] = None) -> Optional[str]:
        v = self.eval_const(node, env)
        return v if isinstance(v, str) else None

    @staticmethod
    def eval_flags(node: Optional[ast.AST]) -> Optional[int]:
        if node is None:
            return 0
        if isinstance(node, ast.BinOp) and isinstance(node.op, ast.BitOr):
            a, b = PyModel.eval_flags(node.left), PyModel.eval_flags(node.right)
            return None if a is None or b is None else a | b
        if isinstance(node, ast.Attribute) and isinstance(node.value, ast.Name) and node.value.id == "re":
            return int(getattr(re, node.attr, None) or 0) if hasattr(re, node.attr) else None
        if isinstance(node, ast.Constant) and isinstance(node.value, int):
            return node.value
        return None

    def regex_constants(self) -> Dict[str, Tuple[str, int, ast.AST, str]]:
        """name -> (pattern, flags, node, module); name is 'module.NAME' or 'Class.NAME'."""
        out: Dict[str, Tuple[str, int, ast.AST, str]] = {}

        def handle(owner: str, mod: str, tname: str, value: ast.AST, env):
            if (isinstance(value, ast.Call) and isinstance(value.func, ast.Attribute)
                    and isinstance(value.func.value, ast.Name) and value.func.value.id == "re"
                    and value.func.attr == "compile" and value.args):
                pat = self.eval_str(value.args[0], env)
                fl = value.args[1] if len(value.args) > 1 else None
                for kw in value.keywords:
                    if kw.arg == "flags":
                        fl = kw.value
                flags = self.eval_flags(fl)
                if pat is not None and flags is not None:
                    # effective flags: those given to re.compile plus global inline flags of the pattern, `(?i)...`
                    try:
                        import re._parser as _sre
                        flags |= _sre.parse(pat, flags).state.flags & (re.IGNORECASE | re.VERBOSE | re.DOTALL | re.MULTILINE | re.ASCII)
                    except Exception:
                        pass
                    out[f"{owner}.{tname}"] = (pat, flags, value, mod)

        def simple_assign(st):
            if isinstance(st, ast.Assign) and len(st.targets) == 1 and isinstance(st.targets[0], ast.Name):
                return st.targets[0].id, st.value
            if isinstance(st, ast.AnnAssign) and isinstance(st.target, ast.Name) and st.value is not None:
                return st.target.id, st.value
            return None

        for mod, tree in self.modules.items():
            env = self.module_env(mod)
            for st in tree.body:
                sa = simple_assign(st)
                if sa:
                    handle(mod, mod, sa[0], sa[1], env)
                elif isinstance(st, ast.ClassDef):
                    cenv = dict(env)
                    for m in st.body:
                        sa = simple_assign(m)
                        if sa:
                            v = self.eval_const(sa[1], cenv)
                            if v is not PyModel._UNKNOWN:
                                cenv[sa[0]] = v
                            handle(st.name, mod, sa[0], sa[1], cenv)
        return out

    def module_env(self, mod: str) -> Dict[str, object]:
        """module-level constants (evaluated in order) of ford/<mod>.py, including names imported from sibling modules"""
        cache = self.__dict__.setdefault("_menv", {})
        if mod in cache:
            return cache[mod]
        cache[mod] = env = {}
        tree = self.modules[mod]
        for st in tree.body:
            if isinstance(st, ast.ImportFrom) and st.module and st.module.startswith("ford.") and st.module[5:] in self.modules \
                    and st.module[5:] != mod:
                other = self.module_env(st.module[5:])
                for a in st.names:
                    if a.name in other:
                        env[a.asname or a.name] = other[a.name]
            tgt = None
            if isinstance(st, ast.Assign) and len(st.targets) == 1 and isinstance(st.targets[0], ast.Name):
                tgt, val = st.targets[0].id, st.value
            elif isinstance(st, ast.AnnAssign) and isinstance(st.target, ast.Name) and st.value is not None:
                tgt, val = st.target.id, st.value
            if tgt:
                v = self.eval_const(val, env)
                if v is not PyModel._UNKNOWN:
                    env[tgt] = v
        return env

    def local_env(self, fn: ast.AST, mod: str) -> Dict[str, object]:
        """module_env(mod) plus the function's own constants: local names that are assigned exactly once, to a constant
        expression (`access_specs = ("public", "private")`), and the constant attributes of the enclosing class under their
        bare names are NOT added (they are reached as self.X / cls.X, which eval_const resolves itself where it can)"""
        env = dict(self.module_env(mod))
        seen: Dict[str, list] = {}
        for n in ast.walk(fn):
            if isinstance(n, ast.Assign) and len(n.targets) == 1 and isinstance(n.targets[0], ast.Name):
                seen.setdefault(n.targets[0].id, []).append(n.value)
            elif isinstance(n, ast.AnnAssign) and isinstance(n.target, ast.Name) and n.value is not None:
                seen.setdefault(n.target.id, []).append(n.value)
            elif isinstance(n, (ast.AugAssign, ast.NamedExpr)) and isinstance(n.target, ast.Name):
                seen.setdefault(n.target.id, []).extend([None, None])
            elif isinstance(n, (ast.For, ast.comprehension)):
                for t in ast.walk(n.target):
                    if isinstance(t, ast.Name):
                        seen.setdefault(t.id, []).extend([None, None])
        for _ in range(2):
            for name, vals in seen.items():
                if len(vals) == 1 and vals[0] is not None and name not in env:
                    v = self.eval_const(vals[0], env)
                    if v is not PyModel._UNKNOWN:
                        env[name] = v
        return env

    def const_value(self, owner: str, name: str):
        """value of the module-level ('module', NAME) or class-level ('Class', NAME) constant, or _UNKNOWN"""
        if owner in self.modules:
            return self.module_env(owner).get(name, PyModel._UNKNOWN)
        if owner in self.classes:
            ci = self.classes[owner]
            env = dict(self.module_env(ci.module))
            for m in ci.node.body:
                tgt = None
                if isinstance(m, ast.Assign) and len(m.targets) == 1 and isinstance(m.targets[0], ast.Name):
                    tgt, val = m.targets[0].id, m.value
                elif isinstance(m, ast.AnnAssign) and isinstance(m.target, ast.Name) and m.value is not None:
                    tgt, val = m.target.id, m.value
                if tgt:
                    v = self.eval_const(val, env)
                    if v is not PyModel._UNKNOWN:
                        env[tgt] = v
            return env.get(name, PyModel._UNKNOWN)
        return PyModel._UNKNOWN

    def eval_at(self, expr: ast.AST, at: ast.AST):
        """value of a constant expression as seen from the code around `at`: module constants of that module, and class
        constants reached as `self.NAME` / `cls.NAME` / `Class.NAME` (looked up along the MRO of the enclosing class)"""
        mod = self.module_of(at)
        if isinstance(expr, ast.Attribute) and isinstance(expr.value, ast.Name):
            owner = expr.value.id
            if owner in ("self", "cls"):
                owner = self.enclosing_class(at)
                # a closure: the class of the enclosing method
                p = at
                while owner is None and p in self.parents:
                    p = self.parents[p]
                    if isinstance(p, ast.ClassDef):
                        owner = p.name
            if owner in self.classes:
                for c in self.mro(owner):
                    v = self.const_value(c, expr.attr) if c in self.classes else PyModel._UNKNOWN
                    if v is not PyModel._UNKNOWN:
                        return v
                return PyModel._UNKNOWN
        return self.eval_const(expr, self.module_env(mod))

    def str_constant(self, owner: str, name: str) -> Optional[str]:
        """Module-level ('module', NAME) or class-level ('Class', NAME) string constant."""
        v = self.const_value(owner, name)
        return v if isinstance(v, str) else None

    # ------------------------------------------------------------------ helpers
    def walk_calls(self, node: ast.AST) -> Iterator[ast.Call]:
        for n in ast.walk(node):
            if isinstance(n, ast.Call):
                yield n

    def enclosing_function(self, node: ast.AST) -> Optional[ast.FunctionDef]:
        n = node
        while n in self.parents:
            n = self.parents[n]
            if isinstance(n, (ast.FunctionDef, ast.AsyncFunctionDef)):
                return n
        return None

    def enclosing_class(self, node: ast.AST) -> Optional[str]:
        n = node
        while n in self.parents:
            n = self.parents[n]
            if isinstance(n, ast.ClassDef):
                return n.name
        return None

    def qualname(self, fn: ast.AST) -> str:
        parts = [getattr(fn, "name", "?")]
        n = fn
        while n in self.parents:
            n = self.parents[n]
            if isinstance(n, (ast.FunctionDef, ast.ClassDef, ast.AsyncFunctionDef)):
                parts.append(n.name)
        mod = self.module_of(fn)
        return mod + "." + ".".join(reversed(parts))

    def all_ifunctions(self) -> Iterator[Tuple[str, ast.FunctionDef]]:
        """functions of the canonical (helper-inlined) program; helpers whose every call was inlined are left out"""
        dead = self.inline_stats.get("_fully_inlined", set())
        for mod, tree in self.imodules.items():
            for n in tree.body:
                if isinstance(n, (ast.FunctionDef, ast.AsyncFunctionDef)):
                    if (mod, None, n.name) not in dead:
                        yield mod, n
                        yield from ((mod, x) for x in ast.walk(n) if x is not n and isinstance(x, (ast.FunctionDef, ast.AsyncFunctionDef)))
                elif isinstance(n, ast.ClassDef):
                    for m in ast.walk(n):
                        if isinstance(m, (ast.FunctionDef, ast.AsyncFunctionDef)) and (mod, n.name, m.name) not in dead:
                            yield mod, m

    def all_functions(self) -> Iterator[Tuple[str, ast.FunctionDef]]:
        for mod, tree in self.modules.items():
            for n in ast.walk(tree):
                if isinstance(n, (ast.FunctionDef, ast.AsyncFunctionDef)):
                    yield mod, n


def call_name(c: ast.Call) -> str:
    """Dotted textual name of the callee ('' if not a plain name/attribute chain)."""
    f = c.func
    parts = []
    while isinstance(f, ast.Attribute):
        parts.append(f.attr)
        f = f.value
    if isinstance(f, ast.Name):
        parts.append(f.id)
        return ".".join(reversed(parts))
    if isinstance(f, ast.Call):
        return call_name(f) + "()." + ".".join(reversed(parts))
    return "?." + ".".join(reversed(parts)) if parts else ""


def is_self_attr(n: ast.AST, attr: Optional[str] = None) -> bool:
    return (isinstance(n, ast.Attribute) and isinstance(n.value, ast.Name)
            and n.value.id == "self" and (attr is None or n.attr == attr))


def norm(node: ast.AST) -> str:
    return ast.unparse(node)
